//! Native runner: executes real dlt-core functions on concrete inputs and
//! prints one line per input. Used to replay SMT models and to validate the
//! MIR->SMT translator (same inputs through the real function and the
//! encoding).
use dlt_core::dlt::DltTimeStamp;
use std::panic;

fn main() {
    panic::set_hook(Box::new(|_| {}));
    let args: Vec<String> = std::env::args().collect();
    match args.get(1).map(|s| s.as_str()) {
        Some("ts") => {
            let which = args[2].clone();
            for a in &args[3..] {
                let n: u64 = a.parse().expect("u64");
                let w = which.clone();
                let r = panic::catch_unwind(move || {
                    if w == "from_ms" {
                        DltTimeStamp::from_ms(n)
                    } else {
                        DltTimeStamp::from_us(n)
                    }
                });
                match r {
                    Ok(t) => println!("{} ok {} {}", n, t.seconds, t.microseconds),
                    Err(_) => println!("{} panic", n),
                }
            }
        }
        _ => {
            eprintln!("usage: dlt-native ts from_ms|from_us <u64>...");
            std::process::exit(2);
        }
    }
}
