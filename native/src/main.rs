//! Native runner: executes real dlt-core functions on concrete inputs and
//! prints one line per input. Used to replay SMT models and to validate the
//! MIR->SMT translator (same inputs through the real function and the
//! encoding).
use dlt_core::dlt::DltTimeStamp;
use std::panic;

fn main() {
    panic::set_hook(Box::new(|_| {}));
    let args: Vec<String> = std::env::args().collect();
    match args.get(1).map(|s| s.as_str()) {
        Some("ts") => {
            let which = args[2].clone();
            for a in &args[3..] {
                let n: u64 = a.parse().expect("u64");
                let w = which.clone();
                let r = panic::catch_unwind(move || {
                    if w == "from_ms" {
                        DltTimeStamp::from_ms(n)
                    } else {
                        DltTimeStamp::from_us(n)
                    }
                });
                match r {
                    Ok(t) => println!("{} ok {} {}", n, t.seconds, t.microseconds),
                    Err(_) => println!("{} panic", n),
                }
            }
        }
        Some("fibex") => {
            // load one FIBEX file; prints "model" or "none" (a hang is detected by the caller's wall-clock limit)
            let cfg = dlt_core::fibex::FibexConfig { fibex_file_paths: vec![args[2].clone()] };
            match dlt_core::fibex::gather_fibex_data(cfg) {
                Some(_) => println!("model"),
                None => println!("none"),
            }
        }
        _ => {
            eprintln!("usage: dlt-native ts from_ms|from_us <u64>... | fibex <path>");
            std::process::exit(2);
        }
    }
}
