#!/usr/bin/env python3
"""Regenerates MANIFEST.json from registry.py (single source of truth)."""
import json, os, subprocess, sys
sys.path.insert(0, os.path.dirname(os.path.abspath(__file__)))
import registry

def repo_commits():
    out = subprocess.run(["git", "-C", "/repo", "log", "--format=%h %s"], stdout=subprocess.PIPE, text=True).stdout
    # the FIBEX event-level hooks (0fb0af1) were reverted again (2a3d6d1): C12 could not be decided, see DESIGN.md
    return [l.split()[0] for l in out.splitlines() if l.split(" ", 1)[1].startswith("verif hooks:") and l.split()[0] != "0fb0af1"]

checks = []
for pid in sorted(registry.PROPS):
    p = registry.PROPS[pid]
    if p.get("not_claimed"):
        continue
    c = {
        "property_id": pid,
        "quick_cmd": f"./run.py {pid} --tier quick",
        "thorough_cmd": f"./run.py {pid} --tier thorough",
        "evidence_file": f"/verif/evidence/{pid}.json",
        "replay_cmd_template": f"./run.py {pid} --replay {{path}}",
        "engine": p.get("engine", "kani-cbmc"),
        "level_claimed": {"category": p.get("level", "model_checking"), "text": p["level_text"], "design_ref": p.get("design_ref", f"DESIGN.md §4 {pid}")},
        "level_note": p["level_note"],
        "technique": p.get("technique", "bounded model checking of the compiled code (Kani 0.68 -> CBMC 6.11, CaDiCaL), symbolic inputs, reference oracle in the harness"),
    }
    checks.append(c)

na = list(registry.NOT_APPLICABLE)
claimed = {c["property_id"] for c in checks} | {n["property_id"] for n in na}
for l in open(os.path.join(os.path.dirname(os.path.abspath(__file__)), "properties.jsonl")):
    pid = json.loads(l)["id"]
    if pid not in claimed:
        na.append({"property_id": pid, "reason": "check under construction in this revision (DESIGN.md §8); not claimed yet"})
na.sort(key=lambda n: n["property_id"])

m = {
    "version": 1,
    "setup_cmd": "./run.py --setup",
    "hooks": {
        "guard": "cargo feature verif_hooks (dlt-core Cargo.toml)",
        "enable": "the harness crates depend on dlt-core with features = [\"fibex\", \"statistics\", \"stream\", \"verif_hooks\"]",
        "baseline_off_cmd": "cd /repo && cargo test --workspace --no-fail-fast --offline",
        "source_commits": repo_commits(),
        "add_only": True,
    },
    "engines": [
        {"name": "kani-cbmc", "path": "/verif/run.py + /verif/kani", "serves_properties": [c["property_id"] for c in checks if c["engine"] == "kani-cbmc"],
         "kind_free_text": "Kani 0.68 compiles harness + real dlt-core MIR to goto programs; run.py drives goto-cc/goto-instrument/cbmc per harness in parallel and decides from CBMC's JSON verdict; counterexamples are replayed natively through Kani concrete playback"},
        {"name": "mir-smt", "path": "/verif/smt", "serves_properties": [c["property_id"] for c in checks if c["engine"] == "mir-smt"],
         "kind_free_text": "nightly MIR dump of the current tree -> SMT-LIB (bit-vector and integer encodings) -> cvc5 (bv-as-int) and z3; models replayed natively"},
    ],
    "checks": checks,
    "not_applicable": na,
    "notes": "All checks are solver-based (SAT/SMT over the real code, regenerated from /repo's working tree on every run). Exit 2 = inconclusive (timeout, OOM, vacuous, non-reproducing counterexample): never counted as a pass.",
}
json.dump(m, open(os.path.join(os.path.dirname(os.path.abspath(__file__)), "MANIFEST.json"), "w"), indent=1)
print("wrote MANIFEST.json with", len(checks), "checks;", len(m["not_applicable"]), "not applicable")
