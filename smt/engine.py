"""SMT side channel (DESIGN §C17): MIR -> SMT-LIB for the timestamp kernels.

For every kernel the obligations are generated from the MIR of the *current*
snapshot of /repo, in two encodings (bit-vector and integer-with-explicit-wrap),
and decided by cvc5 (bit-vectors solved as integers, `--solve-bv-as-int=sum`)
and by z3 on the integer encoding (cvc5 on the integer encoding does not
finish within a minute on the current tree and is not used). Verdicts must agree; any `(error`
line, `unknown` or timeout makes the check inconclusive. A `sat` model is
replayed natively (dev and release profile) against the real function.
The translator is validated on every run by pushing concrete inputs through
both the real function (native) and the encodings.
"""
import json
import os
import re
import shutil
import subprocess
import time

from . import mir2smt

VERIF = os.path.dirname(os.path.dirname(os.path.abspath(__file__)))

SOLVERS = {
    "cvc5-bv-as-int": (["cvc5", "--lang", "smt2", "--incremental", "--produce-models", "--solve-bv-as-int=sum"], "bv"),
    "z3-int": (["/usr/bin/z3", "-in", "-smt2"], "int"),
}


def env_offline():
    e = dict(os.environ)
    e["CARGO_NET_OFFLINE"] = "true"
    e.pop("RUSTFLAGS", None)
    return e


def dump_mir(work, log):
    tdir = os.path.join(VERIF, ".cache", f"mir{work.slot}")
    t0 = time.time()
    r = subprocess.run(
        ["cargo", "+nightly", "rustc", "--offline", "--lib", "--no-default-features", "--target-dir", tdir, "--",
         "-Zunpretty=mir", "-C", "debug-assertions=off", "-C", "overflow-checks=on"],
        cwd=work.repo, env=env_offline(), stdout=subprocess.PIPE, stderr=subprocess.PIPE, text=True, timeout=900)
    if r.returncode != 0 or "fn " not in r.stdout:
        raise RuntimeError("MIR dump failed: " + r.stderr[-800:])
    log(f"  MIR dump: {len(r.stdout.splitlines())} lines in {time.time() - t0:.0f}s")
    return r.stdout


def build_native(work, log):
    nd = os.path.join(work.dir, "native")
    shutil.copytree(os.path.join(VERIF, "native"), nd, ignore=shutil.ignore_patterns("target", "Cargo.toml.in"))
    t = open(os.path.join(VERIF, "native", "Cargo.toml.in")).read().replace("@REPO@", work.repo)
    open(os.path.join(nd, "Cargo.toml"), "w").write(t)
    shutil.copy(os.path.join(work.repo, "Cargo.lock"), os.path.join(nd, "Cargo.lock"))
    tdir = os.path.join(VERIF, ".cache", f"nt{work.slot}")
    bins = {}
    for prof, extra in (("dev", []), ("release", ["--release"])):
        r = subprocess.run(["cargo", "build", "--offline", "--target-dir", tdir] + extra, cwd=nd, env=env_offline(),
                           stdout=subprocess.PIPE, stderr=subprocess.STDOUT, text=True, timeout=1200)
        if r.returncode != 0:
            raise RuntimeError("native build failed: " + r.stdout[-800:])
        bins[prof] = os.path.join(tdir, "debug" if prof == "dev" else "release", "dlt-native")
    return bins


def native_ts(bins, prof, kernel, values):
    r = subprocess.run([bins[prof], "ts", kernel] + [str(v) for v in values], stdout=subprocess.PIPE, text=True, timeout=60)
    out = {}
    for ln in r.stdout.splitlines():
        p = ln.split()
        out[int(p[0])] = ("panic",) if p[1] == "panic" else ("ok", int(p[2]), int(p[3]))
    return out


SOLVER_BATCH = {
    "cvc5-bv-as-int": ["cvc5", "--lang", "smt2", "--incremental", "--produce-models", "--solve-bv-as-int=sum"],
    "z3-int": ["/usr/bin/z3", "-smt2"],
}


def run_batch(sname, prelude, items, workdir, tag, timeout=300):
    """items: list of (key, [assertions], [terms to get-value or None]).
    One solver process decides all items (push/pop). Returns
    ({key: (verdict, value-text)}, seconds, errors)."""
    lines = ["(set-option :produce-models true)", "(set-logic ALL)"] + list(prelude)
    for i, (key, asserts, getv) in enumerate(items):
        lines.append("(push 1)")
        lines.append(f'(echo "@@{i}")')
        for a in asserts:
            lines.append(f"(assert {a})")
        lines.append("(check-sat)")
        if getv:
            lines.append(f"(get-value ({' '.join(getv)}))")
        lines.append("(pop 1)")
    lines.append('(echo "@@end")')
    path = os.path.join(workdir, f"{tag}.smt2")
    open(path, "w").write("\n".join(lines) + "\n")
    t0 = time.time()
    try:
        r = subprocess.run(SOLVER_BATCH[sname] + [path], stdout=subprocess.PIPE, stderr=subprocess.STDOUT, text=True, timeout=timeout)
        out = r.stdout
    except subprocess.TimeoutExpired as e:
        out = (e.stdout or b"").decode() if isinstance(e.stdout, bytes) else (e.stdout or "")
        out += "\n@@timeout\n"
    dt = time.time() - t0
    res, errors = {}, []
    cur = None
    buf = []
    def flush():
        if cur is not None:
            txt = "\n".join(buf).strip()
            verdict = txt.split("\n", 1)[0].strip() if txt else "none"
            res[items[cur][0]] = (verdict, txt.split("\n", 1)[1] if "\n" in txt else "")
    for ln in out.splitlines():
        m = re.match(r'"?@@(\d+|end|timeout)"?$', ln.strip())
        if m:
            flush()
            buf = []
            cur = int(m.group(1)) if m.group(1).isdigit() else None
            if m.group(1) == "timeout":
                errors.append("solver timeout")
            continue
        if "(error" in ln:
            errors.append(ln.strip()[:200])
        buf.append(ln)
    flush()
    for key, _, _ in items:
        res.setdefault(key, ("none", ""))
    return res, dt, errors


def parse_nums(txt):
    """all numerals in a get-value answer, in order (hex / binary / bv / decimal)"""
    out = []
    for m in re.finditer(r"#x([0-9a-fA-F]+)|#b([01]+)|\(_ bv(\d+) \d+\)|(?<![\w!|])(\d+)(?=\)|\s)", txt):
        if m.group(1):
            out.append(int(m.group(1), 16))
        elif m.group(2):
            out.append(int(m.group(2), 2))
        else:
            out.append(int(m.group(3) or m.group(4)))
    return out


def encode(mir, suffix, mode):
    fn_text, params, ret = mir2smt.extract_fn(mir, suffix)
    enc = mir2smt.Enc(mode)
    inputs, paths = mir2smt.walk(fn_text, params, enc)
    if len(paths) < 1 or len(paths) > 64 or len(inputs) != 1:
        raise mir2smt.Unsupported(f"expected 1..64 paths / one input, got {len(paths)} / {len(inputs)}")
    return enc, inputs[0], paths, fn_text


def obligations(enc, inp, paths, unit_per_sec):
    """Return (prelude, pre, [(key, negated-goal)], (sec, mic, okflag), widths) for C17.
    `paths` are the complete (returning) paths of the acyclic MIR body."""
    name, w = inp
    x = f"|{name}|"
    W = 160  # wide enough for seconds*10^6 + micro and ms*1000
    if enc.mode == "bv":
        def wide(e, wf): return f"((_ zero_extend {W - wf}) {e})"
        def c(v): return f"(_ bv{v} {W})"
        pre = f"(bvult (bvudiv {x} (_ bv{unit_per_sec} {w})) (_ bv{1 << 32} {w}))"
        mul, add, lt = "bvmul", "bvadd", "bvult"
    else:
        def wide(e, wf): return e
        def c(v): return str(v)
        pre = f"(< {x} {unit_per_sec * (1 << 32)})"
        mul, add, lt = "*", "+", "<"
    us_per_unit = 1_000_000 // unit_per_sec
    input_us = f"({mul} {wide(x, w)} {c(us_per_unit)})"
    goals = []
    seen = set()
    conds = []
    ws = wm = None
    for pi, path in enumerate(paths):
        sec, ws = path.ret["seconds"]
        mic, wm = path.ret["microseconds"]
        for i, (ok, msg, before) in enumerate(path.asserts):
            neg = f"(and true {' '.join(before)} (not {ok}))"
            if neg in seen:
                continue
            seen.add(neg)
            goals.append((f"no_panic[{len(goals)}]: {msg[:60]}", neg, False))
        pc = "(and true " + " ".join(path.cond) + ")"
        conds.append((pc, sec, mic))
        total = f"({add} ({mul} {wide(sec, ws)} {c(1_000_000)}) {wide(mic, wm)})"
        goals.append((f"path{pi}: microseconds<1000000", f"(and {pc} (not ({lt} {wide(mic, wm)} {c(1_000_000)})))", True))
        goals.append((f"path{pi}: seconds*10^6+microseconds==input_in_us", f"(and {pc} (not (= {total} {input_us})))", True))
    okflag = "(or false " + " ".join(pc for pc, _, _ in conds) + ")"
    zero_s = enc.const(0, ws)
    zero_m = enc.const(0, wm)
    outsec, outmic = zero_s, zero_m
    for pc, sec, mic in reversed(conds):
        outsec = f"(ite {pc} {sec} {outsec})"
        outmic = f"(ite {pc} {mic} {outmic})"
    prelude = enc.decls + [f"(assert {s})" for s in enc.side]
    return prelude, pre, goals, (outsec, outmic, okflag), (ws, wm)


def run(prop, pdef, work, tier, log):
    res = {"extra": {"samples": [], "coverage": {}}, "violations": [], "inconclusive": []}
    t_start = time.time()
    mir = dump_mir(work, log)
    bins = build_native(work, log)
    queries = discharged = 0
    smt_time = 0.0
    sanity = 0
    cross = []
    for kern in pdef["smt"]:
        suffix, unit = kern["suffix"], kern["unit_per_sec"]
        kname = kern["name"]
        verdicts = {}   # key -> {solver: verdict}
        models = {}
        validated = 0
        for sname in SOLVER_BATCH:
            mode = "bv" if "bv" in sname else "int"
            try:
                enc, inp, paths, fn_text = encode(mir, suffix, mode)
                prelude, pre, goals, outs, widths = obligations(enc, inp, paths, unit)
            except mir2smt.Unsupported as e:
                res["inconclusive"].append(f"{kname}: translator refused: {e}")
                break
            wd = os.path.join(work.out, "smt")
            os.makedirs(wd, exist_ok=True)
            xin = f"|{inp[0]}|"
            items = [("@sanity", [pre, outs[2]], None)]
            for key, neg, _ in goals:
                items.append((key, [pre, neg], None))
            r1, dt, errs = run_batch(sname, prelude, items, wd, f"{kname}-{sname}-goals", timeout=kern.get("timeout", 300))
            smt_time += dt
            queries += len(items)
            if errs:
                res["inconclusive"].append(f"{kname}/{sname}: {errs[0]}")
            if r1["@sanity"][0] == "sat":
                sanity += 1
                discharged += 1
            else:
                res["inconclusive"].append(f"{kname}/{sname}: sanity query not sat: {r1['@sanity'][0]}")
            sat_keys = []
            for key, _, _ in goals:
                v = r1[key][0]
                verdicts.setdefault(key, {})[sname] = v
                if v == "unsat":
                    discharged += 1
                elif v == "sat":
                    sat_keys.append(key)
            if sat_keys:
                items2 = [(key, [pre, neg], [xin]) for key, neg, _ in goals if key in sat_keys]
                r2, dt, errs = run_batch(sname, prelude, items2, wd, f"{kname}-{sname}-models", timeout=kern.get("timeout", 300))
                smt_time += dt
                for key in sat_keys:
                    nums = parse_nums(r2[key][1])
                    if r2[key][0] == "sat" and nums:
                        models.setdefault(key, {})[sname] = nums[-1]
            # translator validation on concrete inputs: encoding vs native
            tests = [0, 1, 999, 1000, 1001, 999_999, 1_000_000, 1_000_005, 1_500_000, 4_294_967_295, 4_294_967_296,
                     unit * (1 << 32) - 1, 12_345_678_901, 2 ** 40 + 12345]
            seed = int(os.environ.get("VERIF_SEED", "0") or 0)
            import random
            rnd = random.Random(seed)
            tests += [rnd.randrange(0, unit * (1 << 32)) for _ in range(6)]
            tests = sorted({t for t in tests if t // unit < (1 << 32)})
            nat = native_ts(bins, "dev", kname, tests)
            srt = (lambda w: f"(_ BitVec {w})") if mode == "bv" else (lambda w: "Int")
            defs = [f"(define-fun okflag () Bool {outs[2]})",
                    f"(define-fun outsec () {srt(widths[0])} {outs[0]})",
                    f"(define-fun outmic () {srt(widths[1])} {outs[1]})"]
            items3 = [(str(tv), [f"(= {xin} {enc.const(tv, inp[1])})"], ["okflag", "outsec", "outmic"]) for tv in tests]
            r3, dt, errs = run_batch(sname, prelude + defs, items3, wd, f"{kname}-{sname}-concrete", timeout=300)
            smt_time += dt
            if errs:
                res["inconclusive"].append(f"{kname}/{sname}: concrete evaluation: {errs[0]}")
            for tv in tests:
                v, txt = r3[str(tv)]
                if v != "sat":
                    res["inconclusive"].append(f"{kname}/{sname}: concrete evaluation of {tv} gave {v}")
                    continue
                mo = re.search(r"\(okflag (true|false)\)", txt)
                ms_ = re.search(r"\(outsec ([^\n]*?)\)\s*\(outmic", txt, re.S)
                mm_ = re.search(r"\(outmic ([^\n]*?)\)\)\s*$", txt.strip(), re.S)
                enc_ok = bool(mo) and mo.group(1) == "true"
                ns = parse_nums(ms_.group(1) + " ") if ms_ else []
                nm = parse_nums(mm_.group(1) + " ") if mm_ else []
                if not mo or not ns or not nm:
                    enc_res = ("?", txt)
                else:
                    enc_res = ("ok", ns[-1], nm[-1]) if enc_ok else ("panic",)
                if enc_res != nat.get(tv):
                    res["inconclusive"].append(f"{kname}/{sname}: TRANSLATOR MISMATCH on {tv}: encoding {enc_res} vs native {nat.get(tv)}")
                else:
                    validated += 1
        # combine verdicts
        for key, vs in verdicts.items():
            vals = set(vs.values())
            cross.append({"kernel": kname, "obligation": key, "verdicts": vs})
            if vals == {"unsat"}:
                continue
            if vals == {"sat"}:
                # replay each distinct model natively
                cand = sorted(set(models.get(key, {}).values()))
                reproduced = None
                for val in cand:
                    for prof in ("dev", "release"):
                        out = native_ts(bins, prof, kname, [val]).get(val)
                        bad = out is None or out[0] == "panic" or out[2] >= 1_000_000 or out[1] * 1_000_000 + out[2] != val * (1_000_000 // unit)
                        if bad and val // unit < (1 << 32):
                            reproduced = (val, prof, out)
                            break
                    if reproduced:
                        break
                cdir = os.environ.get("VERIF_CASES_DIR", os.path.join(VERIF, "replay", "cases"))
                os.makedirs(cdir, exist_ok=True)
                cpath = os.path.join(cdir, f"{prop}-{kname}.json")
                case = {"engine": "smt", "property": prop, "kernel": kname, "unit_per_sec": unit, "obligation": key,
                        "models": models.get(key, {}), "reproduced": reproduced}
                json.dump(case, open(cpath, "w"), indent=1)
                res["violations"].append({"key": f"{kname}", "obligation": key, "reproduced": bool(reproduced), "replay": cpath,
                                          "input": reproduced[0] if reproduced else (cand[0] if cand else None)})
            else:
                res["inconclusive"].append(f"{kname}: solvers disagree or are inconclusive on '{key}': {vs}")
        res["extra"]["samples"].append({"kernel": kname, "mir_fn": suffix, "obligations": list(verdicts.keys()),
                                        "verdicts": {k: v for k, v in verdicts.items()}, "translator_validated_inputs": validated})
    # one violation entry per kernel is enough
    seen = set()
    uniq = []
    for v in res["violations"]:
        if v["key"] in seen:
            continue
        seen.add(v["key"])
        uniq.append(v)
    res["violations"] = uniq
    res["extra"].update({"smt_queries": queries, "smt_discharged": discharged, "smt_s": round(smt_time, 2), "distinct_nontrivial": sanity,
                         "checker_cmd": "MIR(nightly -Zunpretty=mir) -> smt/mir2smt.py -> cvc5 1.0 --solve-bv-as-int=sum (QF_BV) and z3 4.8.12 / cvc5 (integer encoding)"})
    res["extra"]["coverage"].update({"smt_cross_check": cross, "smt_wall_s": round(time.time() - t_start, 1)})
    return res


def replay(case, work, log):
    """True iff the recorded input still violates the property natively."""
    bins = build_native(work, log)
    unit = case["unit_per_sec"]
    vals = sorted(set(case.get("models", {}).values()))
    if case.get("reproduced"):
        vals = [case["reproduced"][0]] + vals
    for val in vals:
        for prof in ("dev", "release"):
            out = native_ts(bins, prof, case["kernel"], [val]).get(val)
            bad = out is None or out[0] == "panic" or out[2] >= 1_000_000 or out[1] * 1_000_000 + out[2] != val * (1_000_000 // unit)
            log(f"  {case['kernel']}({val}) [{prof}] -> {out}")
            if bad:
                return True
    return False
