"""MIR (rustc nightly -Zunpretty=mir) -> SMT-LIB2 for loop-free integer functions.

Handles exactly the MIR subset that the translated dlt-core kernels use and
*refuses* anything else (Unsupported is raised; the caller reports the check as
inconclusive, never as "holds").

The function is executed symbolically path by path (the CFG must be acyclic).
Each path yields: a path condition, the list of `assert` terminators passed
(their failure = a Rust panic: overflow, division by zero), and the returned
aggregate's fields. Two encodings are produced from the same walk:

  * "bv":  QF_BV, machine semantics by construction (bvudiv/bvurem/bvmul,
           overflow flag = comparison on the double-width product);
  * "int": QF_LIA over mathematical integers with explicit wrap-around
           (x mod 2^k via fresh quotient variables; division/remainder by a
           *constant* via the division lemma a = q*d + r, 0 <= r < d), so
           that solvers that choke on bit-blasted 64-bit division can decide.
"""
import re


class Unsupported(Exception):
    pass


INT_TY = {"u8": 8, "u16": 16, "u32": 32, "u64": 64, "u128": 128, "usize": 64,
          "i8": 8, "i16": 16, "i32": 32, "i64": 64, "i128": 128, "isize": 64}


def extract_fn(mir_text, suffix):
    """Return the text of the unique MIR function whose header contains suffix."""
    heads = [m for m in re.finditer(r"^fn ([^\n]*?)\((.*?)\) -> ([^\n{]+) \{$", mir_text, re.M) if suffix in m.group(1) + "("]
    if len(heads) != 1:
        raise Unsupported(f"{len(heads)} MIR functions match {suffix!r}")
    m = heads[0]
    end = mir_text.index("\n}\n", m.start())
    return mir_text[m.start():end + 2], m.group(2), m.group(3).strip()


class Enc:
    """Expression builder for one of the two encodings."""

    def __init__(self, mode):
        self.mode = mode
        self.decls = []
        self.side = []  # side constraints (int mode: fresh-variable definitions)
        self.n = 0

    def fresh(self, hint, sort):
        self.n += 1
        name = f"{hint}!{self.n}"
        self.decls.append(f"(declare-fun |{name}| () {sort})")
        return f"|{name}|"

    # ----- sorts / constants
    def sort(self, w):
        return f"(_ BitVec {w})" if self.mode == "bv" else "Int"

    def const(self, v, w):
        return f"(_ bv{v % (1 << w)} {w})" if self.mode == "bv" else str(v % (1 << w))

    def input(self, name, w):
        self.decls.append(f"(declare-fun |{name}| () {self.sort(w)})")
        if self.mode == "int":
            self.side.append(f"(and (<= 0 |{name}|) (< |{name}| {1 << w}))")
        return f"|{name}|"

    # ----- int helpers
    def _mod_pow2(self, x, w):
        """x mod 2^w for a non-negative Int expression x."""
        k = self.fresh("k", "Int")
        y = self.fresh("y", "Int")
        self.side.append(f"(and (= {x} (+ (* {k} {1 << w}) {y})) (<= 0 {y}) (< {y} {1 << w}) (<= 0 {k}))")
        return y

    def _const_val(self, e):
        if self.mode == "int" and re.fullmatch(r"\d+", e):
            return int(e)
        m = re.fullmatch(r"\(_ bv(\d+) \d+\)", e)
        if m:
            return int(m.group(1))
        return None

    # ----- operations (unsigned only; signed ops are refused by the walker)
    def binop(self, op, a, b, w):
        ca, cb = self._const_val(a), self._const_val(b)
        if ca is not None and cb is not None:
            if op in ("Div", "Rem") and cb == 0:
                raise Unsupported("constant division by zero")
            v = {"Add": ca + cb, "Sub": ca - cb, "Mul": ca * cb, "Div": ca // cb if cb else 0, "Rem": ca % cb if cb else 0,
                 "BitAnd": ca & cb, "BitOr": ca | cb, "BitXor": ca ^ cb}.get(op)
            if v is None:
                raise Unsupported(op)
            return self.const(v, w)
        if self.mode == "bv":
            t = {"Add": "bvadd", "Sub": "bvsub", "Mul": "bvmul", "Div": "bvudiv", "Rem": "bvurem",
                 "BitAnd": "bvand", "BitOr": "bvor", "BitXor": "bvxor"}.get(op)
            if t is None:
                raise Unsupported(op)
            return f"({t} {a} {b})"
        if op == "Add":
            return self._mod_pow2(f"(+ {a} {b})", w)
        if op == "Mul":
            if self._const_val(a) is None and self._const_val(b) is None:
                raise Unsupported("symbolic*symbolic in int mode")
            return self._mod_pow2(f"(* {a} {b})", w)
        if op in ("Div", "Rem"):
            d = self._const_val(b)
            if d is None or d == 0:
                raise Unsupported("division by a non-constant in int mode")
            q = self.fresh("q", "Int")
            r = self.fresh("r", "Int")
            self.side.append(f"(and (= {a} (+ (* {q} {d}) {r})) (<= 0 {r}) (< {r} {d}) (<= 0 {q}))")
            return q if op == "Div" else r
        raise Unsupported(op + " in int mode")

    def with_overflow(self, op, a, b, w):
        """returns (wrapped result, overflow flag as Bool)"""
        ca, cb = self._const_val(a), self._const_val(b)
        if ca is not None and cb is not None and op in ("Mul", "Add"):
            full = ca * cb if op == "Mul" else ca + cb
            return self.const(full, w), ("true" if full >= (1 << w) else "false")
        if self.mode == "bv":
            za, zb = f"((_ zero_extend {w}) {a})", f"((_ zero_extend {w}) {b})"
            t = {"Mul": "bvmul", "Add": "bvadd"}.get(op)
            if t is None:
                raise Unsupported(op + "WithOverflow")
            full = f"({t} {za} {zb})"
            res = f"((_ extract {w - 1} 0) {full})"
            ovf = f"(not (= ((_ extract {2 * w - 1} {w}) {full}) (_ bv0 {w})))"
            return res, ovf
        if op == "Mul":
            if self._const_val(a) is None and self._const_val(b) is None:
                raise Unsupported("symbolic*symbolic in int mode")
            full = f"(* {a} {b})"
        elif op == "Add":
            full = f"(+ {a} {b})"
        else:
            raise Unsupported(op + "WithOverflow")
        return self._mod_pow2(full, w), f"(>= {full} {1 << w})"

    def cmp(self, op, a, b):
        ca, cb = self._const_val(a), self._const_val(b)
        if ca is not None and cb is not None:
            r = {"Eq": ca == cb, "Ne": ca != cb, "Lt": ca < cb, "Le": ca <= cb, "Gt": ca > cb, "Ge": ca >= cb}[op]
            return "true" if r else "false"
        if op == "Eq":
            return f"(= {a} {b})"
        if op == "Ne":
            return f"(not (= {a} {b}))"
        if self.mode == "bv":
            t = {"Lt": "bvult", "Le": "bvule", "Gt": "bvugt", "Ge": "bvuge"}[op]
        else:
            t = {"Lt": "<", "Le": "<=", "Gt": ">", "Ge": ">="}[op]
        return f"({t} {a} {b})"

    def cast(self, a, wf, wt):
        if self.mode == "bv":
            if wt == wf:
                return a
            if wt < wf:
                return f"((_ extract {wt - 1} 0) {a})"
            return f"((_ zero_extend {wt - wf}) {a})"
        if wt >= wf:
            return a
        return self._mod_pow2(a, wt)

    def widen(self, a, wf, wt):
        """for property formulas: value of a as a wt-bit / Int quantity"""
        return self.cast(a, wf, wt) if self.mode == "bv" else a


class Path:
    def __init__(self):
        self.cond = []      # Bool exprs
        self.asserts = []   # (Bool expr that must hold, message)
        self.ret = None


def walk(fn_text, params, enc):
    """Symbolically execute an acyclic MIR body. Returns (inputs, paths)."""
    # locals
    types = {}
    for m in re.finditer(r"^\s+let (?:mut )?(_\d+): ([^;]+);", fn_text, re.M):
        types[m.group(1)] = m.group(2).strip()
    inputs = []
    for p in [x.strip() for x in params.split(",") if x.strip()]:
        nm, ty = [y.strip() for y in p.split(":", 1)]
        types[nm] = ty
        if ty not in INT_TY or ty.startswith("i"):
            raise Unsupported(f"parameter type {ty}")
        inputs.append((nm, INT_TY[ty]))
    blocks = {}
    for m in re.finditer(r"^    (bb\d+)(?: \(cleanup\))?: \{\n(.*?)^    \}", fn_text, re.M | re.S):
        blocks[m.group(1)] = [ln.strip() for ln in m.group(2).strip().split("\n") if ln.strip()]
    if "bb0" not in blocks:
        raise Unsupported("no bb0")
    env0 = {nm: enc.input(nm, w) for nm, w in inputs}

    def width_of(ty):
        if ty == "bool":
            return "bool"
        if ty in INT_TY:
            if ty.startswith("i"):
                raise Unsupported("signed integer " + ty)
            return INT_TY[ty]
        raise Unsupported("type " + ty)

    def operand(tok, env, want_ty=None):
        tok = tok.strip()
        m = re.fullmatch(r"(?:copy|move) (_\d+)", tok)
        if m:
            if m.group(1) not in env:
                raise Unsupported("use of unassigned " + m.group(1))
            return env[m.group(1)], types[m.group(1)]
        m = re.fullmatch(r"(?:copy|move) \((_\d+)\.(\d+): ([^)]+)\)", tok)
        if m:
            key = f"{m.group(1)}.{m.group(2)}"
            if key not in env:
                raise Unsupported("use of unassigned " + key)
            return env[key], m.group(3).strip()
        m = re.fullmatch(r"const (\d+)_(\w+)", tok)
        if m:
            ty = m.group(2)
            return enc.const(int(m.group(1)), width_of(ty)), ty
        m = re.fullmatch(r"const (true|false)", tok)
        if m:
            return m.group(1), "bool"
        m = re.fullmatch(r"const (?:core|std)::num::<impl (u\d+|usize)>::(MAX|MIN)", tok) or re.fullmatch(r"const (u\d+|usize)::(MAX|MIN)", tok)
        if m:
            ty = m.group(1)
            w = width_of(ty)
            return enc.const((1 << w) - 1 if m.group(2) == "MAX" else 0, w), ty
        raise Unsupported("operand " + tok)

    paths = []

    def run(bb, env, path, depth):
        if depth > 200:
            raise Unsupported("CFG too deep / cyclic")
        for ln in blocks[bb]:
            if ln.startswith(("StorageLive", "StorageDead", "nop", "debug ", "//")):
                continue
            m = re.fullmatch(r"(_\d+) = (.*);", ln)
            if m:
                dst, rv = m.group(1), m.group(2)
                dty = types.get(dst, "")
                mm = re.fullmatch(r"(Eq|Ne|Lt|Le|Gt|Ge)\((.*), (.*)\)", rv)
                if mm:
                    a, ta = operand(mm.group(2), env)
                    b, _ = operand(mm.group(3), env)
                    width_of(ta)
                    env[dst] = enc.cmp(mm.group(1), a, b)
                    continue
                mm = re.fullmatch(r"(Add|Sub|Mul|Div|Rem|BitAnd|BitOr|BitXor)\((.*), (.*)\)", rv)
                if mm:
                    a, ta = operand(mm.group(2), env)
                    b, _ = operand(mm.group(3), env)
                    env[dst] = enc.binop(mm.group(1), a, b, width_of(ta))
                    continue
                mm = re.fullmatch(r"(Add|Sub|Mul)WithOverflow\((.*), (.*)\)", rv)
                if mm:
                    a, ta = operand(mm.group(2), env)
                    b, _ = operand(mm.group(3), env)
                    r, o = enc.with_overflow(mm.group(1), a, b, width_of(ta))
                    env[dst + ".0"], env[dst + ".1"] = r, o
                    continue
                mm = re.fullmatch(r"(.*) as (\w+) \(IntToInt\)", rv)
                if mm:
                    a, ta = operand(mm.group(1), env)
                    env[dst] = enc.cast(a, width_of(ta), width_of(mm.group(2)))
                    continue
                mm = re.fullmatch(r"Not\((.*)\)", rv)
                if mm:
                    a, ta = operand(mm.group(1), env)
                    if ta != "bool":
                        raise Unsupported("Not on " + ta)
                    env[dst] = f"(not {a})"
                    continue
                mm = re.fullmatch(r"(\w+) \{ (.*) \}", rv)
                if mm and dst == "_0":
                    fields = {}
                    for part in mm.group(2).split(", "):
                        fn_, val = part.split(": ", 1)
                        e, ty = operand(val, env)
                        fields[fn_] = (e, width_of(ty))
                    env["_0"] = fields
                    continue
                try:
                    e, ty = operand(rv, env)
                    env[dst] = e
                    continue
                except Unsupported:
                    pass
                raise Unsupported("statement: " + ln)
            m = re.fullmatch(r"assert\((!?)(.*?), \"(.*?)\".*\) -> \[success: (bb\d+).*\];", ln)
            if m:
                c, tc = operand(m.group(2), env)
                if tc != "bool":
                    raise Unsupported("assert on " + tc)
                ok = f"(not {c})" if m.group(1) == "!" else c
                path.asserts.append((ok, m.group(3), list(path.cond)))
                path.cond.append(ok)  # continuing means the assert held
                return run(m.group(4), env, path, depth + 1)
            m = re.fullmatch(r"goto -> (bb\d+);", ln)
            if m:
                return run(m.group(1), env, path, depth + 1)
            m = re.fullmatch(r"switchInt\((.*)\) -> \[(.*)\];", ln)
            if m:
                x, tx = operand(m.group(1), env)
                arms = [a.strip() for a in m.group(2).split(",")]
                taken = []
                import copy
                for a in arms:
                    k, tgt = [y.strip() for y in a.split(":")]
                    if k == "otherwise":
                        cond = "(and true " + " ".join(f"(not {c})" for c in taken) + ")"
                    else:
                        if tx == "bool":
                            c = f"(not {x})" if int(k) == 0 else x
                        else:
                            c = f"(= {x} {enc.const(int(k), width_of(tx))})"
                        taken.append(c)
                        cond = c
                    p2 = copy.deepcopy(path)
                    p2.cond.append(cond)
                    run(tgt, dict(env), p2, depth + 1)
                return
            if ln == "return;":
                path.ret = env.get("_0")
                if not isinstance(path.ret, dict):
                    raise Unsupported("return value is not a struct aggregate of integers")
                paths.append(path)
                return
            raise Unsupported("line: " + ln)
        raise Unsupported("block without terminator " + bb)

    run("bb0", dict(env0), Path(), 0)
    return inputs, paths
