"""Registry of checks: per property the harnesses (Kani) and SMT obligations,
their tier, resource caps and what they decide. Read by run.py."""


# CBMC keeps arrays field-sensitive only up to 64 elements by default, which makes the literal control bytes in
# the 96-byte reference-encoder buffer (and small heap arrays) symbolic for symex; the limit is raised for every
# harness except the families listed in _NO_BIGBUF (measured to be slower with it).
_NO_BIGBUF = ("gen_args::w_arg_string",)


def H(name, tier="quick", timeout=600, what="", **kw):
    d = {"name": name, "tier": tier, "timeout": timeout, "what": what, "mem_gb": 16}
    if not name.startswith(_NO_BIGBUF):
        d["cbmc_args"] = ["--max-field-sensitivity-array-size", "128"]
    d.update(kw)
    return d


COMMON_ASSUME = [
    "allocation never fails (Kani default); single-threaded execution",
    "log crate disabled (max_level Off): trace!/warn! arguments are never evaluated",
    "dev-profile semantics (overflow checks on) is what Kani models; release behaviour is observed only in replays",
]
STUB_FMT = "std::fmt::format is stubbed to return an empty String: error messages are not compared, error classes are"
STUB_UTF8 = ("core::str::from_utf8 is replaced by a byte-wise validator with the same contract (models.rs); the model is itself "
             "checked against std for every input of up to 4 bytes (c19::c19_utf8_model_vs_std)")

import json as _json, os as _os
PROPS = {}

PROPS["C14"] = {
    "level": "model_checking",
    "level_text": "Bounded model checking that is complete for the three code domains: every one of the 2^32 type-info words, 2^8 MSIN bytes and "
                  "2^8 HTYP bytes is covered by a solver query over the compiled conversion functions, compared with a bit-layout oracle "
                  "written from the PRS tables. Exhaustive where tests sample.",
    "level_note": "Trusts Kani's MIR->goto translation, CBMC/CaDiCaL, the oracle's reading of the bit tables; fmt::format and from_utf8 stubbed "
                  "(messages / UTF-8 validation are not the subject); STRU and reserved bits treated as format-unused.",
    "exhaustive": True,
    "functions": ["TypeInfo::try_from(u32)", "TypeInfo::as_bytes::<BE|LE>", "MessageType::try_from(u8)", "u8::from(&MessageType)",
                  "parse::dlt_extended_header", "ExtendedHeader::as_bytes", "StandardHeader::header_type_byte", "parse::dlt_standard_header",
                  "dlt::calculate_standard_header_length", "dlt::calculate_all_headers_length", "StandardHeader::overall_length"],
    "bounds": "complete domains: all 2^32 type-info words, all 2^8 MSIN bytes, all 2^8 HTYP bytes (16 fully symbolic header bytes); "
              "ids in the extended-header harness are fixed 4-byte ASCII",
    "outside": "nothing inside the three code domains; id contents are C19's subject",
    "assumptions": COMMON_ASSUME + [STUB_FMT, STUB_UTF8,
                                    "STRU (bit 14) and reserved bits 18..31 are treated as format-unused: the crate's TypeInfo does not model them"],
    "trusted_base": ["reading of the PRS type-info / MSIN / HTYP bit tables in c14.rs"],
    "harnesses": [
        H("c14::c14_typeinfo_all_words", timeout=300, what="all 2^32 type-info words: accept/reject predicate, decoded description, re-encode, byte-reversal"),
        H("c14::c14_msin_all_bytes", timeout=120, what="all 256 MSIN bytes through MessageType conversions"),
        H("c14::c14_msin_via_extended_header_parse", timeout=300, what="all 256 MSIN x 256 NOAR through dlt_extended_header"),
        H("c14::c14_msin_via_extended_header_write", timeout=300, what="all 256 MSIN x 256 NOAR through ExtendedHeader::as_bytes"),
        H("c14::c14_htyp_compose", timeout=120, what="header_type_byte / header-length helpers for all flag combinations and versions"),
        H("c14::c14_htyp_via_standard_header", timeout=600, what="16 fully symbolic bytes through dlt_standard_header: flags, version, LEN, re-encode"),
    ],
}

PROPS["C19"] = {
    "level": "model_checking",
    "level_text": "Bounded model checking of dlt_zero_terminated_string for every buffer of up to 6 bytes (contents and length symbolic) and every "
                  "size 0..65535 against an independent oracle (first NUL, longest valid UTF-8 prefix, exact consumption, hint <= shortfall); run "
                  "with std's real UTF-8 validator and with a byte-wise model that is itself checked against std.",
    "level_note": "Bound: 6-byte buffers. Trusts Kani/CBMC; fmt::format stubbed. Ids inside whole messages are covered by the header harnesses of C02/C14.",
    "functions": ["parse::dlt_zero_terminated_string", "parse::dlt_zero_terminated_string_intern", "parse::parse_ecu_id", "parse::dlt_extended_header", "parse::dlt_standard_header", "parse::dlt_storage_header"],
    "bounds": "buffers of 0..6 fully symbolic bytes (symbolic length), size symbolic over 0..65535",
    "outside": "buffers longer than 6 bytes (the function keeps no state across bytes other than 'seen NUL' and the UTF-8 automaton, "
               "whose longest sequence is 4 bytes)",
    "assumptions": COMMON_ASSUME + [STUB_FMT, STUB_UTF8 + " (one harness runs with std's real validator instead)"],
    "trusted_base": ["std's UTF-8 validator (real in c19_zstring_std_utf8)"],
    "harnesses": [
        H("c19::c19_zstring_model_utf8", timeout=300, what="oracle comparison with the UTF-8 model"),
        H("c19::c19_zstring_std_utf8", timeout=900, what="same with std's from_utf8"),
        H("c19::c19_utf8_model_vs_std", timeout=600, what="UTF-8 model == std::str::from_utf8 for all inputs up to 4 bytes"),
        H("c19::c19_ids_extended_header", timeout=600, what="application / context id: all contents of both 4-byte fields"),
        H("c19::c19_ids_standard_header_ecu", timeout=600, what="ECU id of the standard header: all contents"),
        H("c19::c19_ids_storage_header_ecu", "thorough", 2400, what="ECU id of the storage header: all contents"),
    ],
}

PROPS["C17"] = {
    "level": "model_checking",
    "engine": "mir-smt",
    "technique": "MIR -> SMT-LIB translation of the real functions; negated property decided by cvc5 (bit-vectors as integers) and z3 (integer encoding with explicit wrap-around); models replayed natively",
    "level_text": "The two kernels are loop-free, so the SMT queries cover every u64 input admitted by the property's precondition (no bound). "
                  "Each obligation (no overflow/division panic, microseconds < 10^6, seconds*10^6+microseconds == input) is decided on two independent "
                  "encodings by two solvers that must agree; the translator is validated against the native function on every run.",
    "level_note": "Trusts the nightly MIR dump, the 250-line translator (validated on 20 concrete inputs per kernel per run), cvc5 and z3. MIR is the "
                  "overflow-checks=on (dev) body; release is observed in replays.",
    "exhaustive": True,
    "functions": ["DltTimeStamp::from_ms", "DltTimeStamp::from_us"],
    "bounds": "all u64 inputs with input / unit-per-second < 2^32 (the property's own precondition); no other bound: the kernels are loop-free",
    "outside": "inputs whose whole seconds do not fit 32 bits (excluded by the property itself)",
    "assumptions": ["MIR semantics of Div/Rem/IntToInt/MulWithOverflow/assert as encoded in smt/mir2smt.py (validated on every run against the "
                    "native function on boundary and seeded inputs)", "overflow-checks=on MIR (dev profile); release behaviour observed in replays"],
    "trusted_base": ["rustc nightly MIR dump", "smt/mir2smt.py", "cvc5 1.0 (int-blasting), z3 4.8.12"],
    "smt": [
        {"name": "from_ms", "suffix": "::from_ms(", "unit_per_sec": 1000},
        {"name": "from_us", "suffix": "::from_us(", "unit_per_sec": 1000000},
    ],
    "harnesses": [],
}


NOT_APPLICABLE = [
    {"property_id": "C08", "reason": "the hand-polled future of DltStreamReader::next_message_slice (futures BufReader + read_exact state machines over heap buffers) exceeds 16 GB in CBMC even for one 5-byte message and a 2-step Pending/Ready schedule; no bounded instance reaches a verdict, also not with literal (enumerated) schedules: a single Pending followed by a 2-byte fragment exceeds 16 GB after 257 s (DESIGN.md 9.5). The defect shared with the blocking reader (F6) was found through C07 and repaired in both readers."},
    {"property_id": "C12", "reason": "byte level (XML files through quick-xml) is out of reach; the event-level harness (read_event stubbed) does not reach a verdict either: the event enum loses its concrete discriminant when moved through `?` and std's stable sort is explored with symbolic length (DESIGN.md 9.5). The infinite loop on end-of-file inside <PDU>/<FRAME> was demonstrated natively and repaired (F7), not found by a solver-based check."},
    {"property_id": "C11", "reason": "quantifies over XML documents on disk parsed by quick-xml into HashMaps; no unit carrying the property is within reach of bounded symbolic execution (DESIGN.md C11)"},
]

PROPS["C18"] = {
    "level": "model_checking",
    "level_text": "Bounded model checking of Argument::to_real_value over the complete value domains: every kind, every value variant, presence of "
                  "fixed-point data, all 2^32 f32 quantisations (NaN, inf, negative, subnormal), all i32/i64 offsets and all values of the "
                  "variant's width; oracle recomputes the double-precision product and does the integer part in i128. No loop, so no unwind bound.",
    "level_note": "One harness per (integer variant x offset width); CBMC's IEEE-754 float encoding is trusted for the f64 multiply and the "
                  "float->int cast (--nan-check on).",
    "functions": ["Argument::to_real_value", "Argument::log_v", "Argument::value_as_f64"],
    "bounds": "none on values: all bit patterns of value, quantisation and offset per harness; kind/presence symbolic",
    "outside": "nothing within the function's input domain (names/units/type-info flags do not influence it)",
    "assumptions": COMMON_ASSUME,
    "trusted_base": ["CBMC floating-point encoding"],
    "harnesses": [
        H("c18::c18_non_integer_values_yield_nothing", timeout=300, what="non-integer / 128-bit values x all kinds: None, no panic"),
        H("c18::c18_i32_off32", timeout=900, what="I32 value, i32 offset, all f32 quantisations"),
        H("c18::c18_u8_off32", timeout=900, what="U8 value, i32 offset"),
        H("c18::c18_u16_off64", timeout=900, what="U16 value, i64 offset"),
        H("c18::c18_i8_off64", timeout=900, what="I8 value, i64 offset"),
        H("c18::c18_u64_off32_literal_q", timeout=900, allow_unsat_covers=["NaN quantization", "negative quantization", "infinite quantization"], what="U64 value (all), i32 offset (all), quantisation in {1, 0.25, 0.125, 3, -1}"),
        H("c18::c18_u64_off64_literal_q", timeout=900, allow_unsat_covers=["NaN quantization", "negative quantization", "infinite quantization"], what="U64 value, i64 offset, literal quantisations"),
        H("c18::c18_i64_off64_literal_q", timeout=900, allow_unsat_covers=["NaN quantization", "negative quantization", "infinite quantization"], what="I64 value, i64 offset, literal quantisations"),
        H("c18::c18_u32_off64_literal_q", timeout=900, allow_unsat_covers=["NaN quantization", "negative quantization", "infinite quantization"], what="U32 value, i64 offset, literal quantisations"),
        H("c18::c18_i8_off32", "thorough", 1800), H("c18::c18_i16_off32", "thorough", 1800), H("c18::c18_i16_off64", "thorough", 1800),
        H("c18::c18_i32_off64", "thorough", 5400), H("c18::c18_i64_off32", "thorough", 5400), H("c18::c18_i64_off64", "thorough", 7200),
        H("c18::c18_u8_off64", "thorough", 1800), H("c18::c18_u16_off32", "thorough", 1800), H("c18::c18_u32_off32", "thorough", 3600),
        H("c18::c18_u32_off64", "thorough", 3600), H("c18::c18_u64_off32", "thorough", 5400), H("c18::c18_u64_off64", "thorough", 7200),
    ],
}

_c13_quick = ["c13_bool", "c13_u16", "c13_s32", "c13_f32", "c13_u128", "c13_string_len2_be", "c13_string_len3_le", "c13_raw", "c13_u16_raw", "c13_u8_string_u32",
              "c13_empty_list", "c13_u128_u8", "c13_fixed_point_s32_no_panic", "c13_fixed_point_u64_no_panic"]
_c13_all = ["c13_bool", "c13_u8", "c13_u16", "c13_u32", "c13_u64", "c13_u128", "c13_s8", "c13_s16", "c13_s32", "c13_s64", "c13_s128",
            "c13_f32", "c13_f64", "c13_string_len2_be", "c13_string_len3_le", "c13_string_len0_le", "c13_raw", "c13_u16_raw", "c13_string_u32", "c13_bool_f64",
            "c13_u8_string_u32", "c13_s16_s16_s16", "c13_empty_list", "c13_u128_u8", "c13_s64_u16", "c13_fixed_point_s32_no_panic", "c13_fixed_point_u32_no_panic",
            "c13_fixed_point_s64_no_panic", "c13_fixed_point_u64_no_panic"]
PROPS["C13"] = {
    "level": "model_checking",
    "level_text": "Bounded model checking of construct_arguments per concrete signal-type list: payload bytes, payload length (0 .. exact size + 2) and "
                  "byte order are symbolic, so every 'too short at position k', 'exact' and 'trailing bytes' case and every value is covered by the "
                  "solver; the oracle is an independent field-by-field decoder on the byte array.",
    "level_note": "Type lists are enumerated (all 15 supported single kinds, 5 pairs/triples, the empty list); declared string/raw lengths are "
                  "bounded by 3 when they fit the buffer. fmt::format and from_utf8 stubbed (String::from_utf8's validation is modelled). "
                  "Fixed-point kinds: only absence of panics.",
    "functions": ["parse::construct_arguments", "parse::dlt_uint", "parse::dlt_sint", "parse::dlt_fint", "parse::dlt_fixed_point"],
    "bounds": "type lists of <= 3 entries from the catalogue; payload <= exact size + 2 bytes (<= 18 bytes); string/raw declared length <= 3 when in range",
    "outside": "type lists outside the catalogue (the per-type code is list-independent except for the running offset, which the pair/triple lists exercise); "
               "strings/raw longer than 3 bytes",
    "assumptions": COMMON_ASSUME + [STUB_FMT, STUB_UTF8],
    "trusted_base": [],
    "harnesses": [H("c13::" + n, "quick" if n in _c13_quick else "thorough", 900, what="type list " + n[4:],
                    allow_unsat_covers=(["payload refused"] if n == "c13_empty_list" else [])) for n in _c13_all],
}

PROPS["C09"] = {
    "level": "model_checking",
    "level_text": "The filter decision procedure is decided as solver queries over all criteria: extended header present/absent, every message "
                  "type and level (incl. Invalid(0..255)), every minimum level number, header ECU id present/absent, arbitrary i64 id counts, and "
                  "each id set absent, empty, or one of 7 subsets of {the message's application id, its context id, its ECU id, a foreign id} (one criterion varied at a time, the others absent or satisfied) - so "
                  "both outcomes of every membership test and lookups of the wrong id in the wrong set are covered; the oracle is the decision table "
                  "of the property. Conversions DltFilterConfig -> ProcessedDltFilterConfig (owned and borrowed) are decided for all Option<u8> levels, "
                  "all 8 presence combinations, and non-empty lists with duplicates. Integration (marker carries the payload length, remainder "
                  "unchanged by the filter, also behind junk) is decided in C04's filter-mode harnesses and c06_junk_3_filtered_out.",
    "level_note": "The id sets are MODELLED: feature verif_hooks swaps std's HashSet<String> inside ProcessedDltFilterConfig for a vector-backed set with the "
                  "same contains / len / from_iter contract (symbolic execution of hashbrown does not finish and Kani rejects a stub for the generic "
                  "HashSet::contains). filtered_out, skip_with_level, u8_to_log_level and the conversions are the real code; std's HashSet is trusted base.",
    "functions": ["parse::filtered_out", "ExtendedHeader::skip_with_level", "ProcessedDltFilterConfig::from(DltFilterConfig)",
                  "ProcessedDltFilterConfig::from(&DltFilterConfig)", "dlt::u8_to_log_level"],
    "bounds": "id sets: subsets of 4 literal ids; ids literal strings",
    "outside": "std's HashSet (modelled); id strings other than the literals",
    "assumptions": COMMON_ASSUME + ["std::collections::HashSet<String> inside ProcessedDltFilterConfig replaced by a vector-backed model (hook in src/filtering.rs, feature verif_hooks)",
                                    "minimum levels built directly as LogLevel::Invalid(_) are outside the configuration space (only absence of panics is checked)"],
    "trusted_base": ["std HashSet lookup", "std FromIterator for HashSet"],
    "harnesses": [
        H("c09::c09_skip_with_level_all", timeout=300, what="level ordering incl. invalid levels, all message types"),
        H("c09::c09_config_conversion_owned", timeout=600, what="owned conversion, all Option<u8> levels, 8 presence combinations"),
        H("c09::c09_config_conversion_borrowed", timeout=600, what="borrowed conversion, all Option<u8> levels, 8 presence combinations"),
        H("c09::c09_filtered_out_decision_table", timeout=900, what="decision table: criteria absent / present-with-empty-set, all types, levels, counts"),
        H("c09::c09_filtered_out_membership_app", timeout=900, what="decision table with non-empty id sets, application-id criterion over 7 subsets of {message's app id, context id, ECU id, foreign id}"),
        H("c09::c09_filtered_out_membership_ctx", timeout=900, what="same, context-id criterion"),
        H("c09::c09_filtered_out_membership_ecu", timeout=900, what="same, ECU-id criterion"),
        H("c09::c09_config_conversion_contents", timeout=600, what="conversions with non-empty id lists: the sets hold exactly the listed ids"),
    ],
}


PROPS["C01"] = {
    "level": "model_checking",
    "level_text": 'P(shape) and W(shape): for every message shape of the catalogue (4 payload kinds, both byte orders, with/without storage header, optional-field combinations, zero-argument verbose / network-trace payloads, every one of the 38 argument layouts plus length variants) the solver decides, for all values of all numeric fields, raw data and trailing bytes, that parsing the reference encoding followed by the tail yields the message field for field (floats bit for bit) and exactly the tail (P, here), and that the writer emits exactly the reference encoding (W: whole messages c02w_msg_* / wm_arg_* and writer units, C02) - the serialise-then-parse identity by substitution of equal byte strings. RT(shape): for the non-verbose, control, network-trace and bool-argument shapes the identity is ALSO decided as stated, in one query: dlt_message(Message::as_bytes(m) ++ tail) == (tail, m) on the crate\'s own bytes.',
    "level_note": 'Shapes are enumerated, not symbolic: control bytes (HTYP, MSIN, NOAR, LEN, type info, length prefixes) and id/text contents are literal per harness (texts contain a two-byte UTF-8 character). Shapes: 4 payload kinds, both byte orders, with/without storage header, optional-field combinations, zero-argument verbose / network-trace payloads, every one of the 38 argument layouts plus length variants (one-query round trip only for non-verbose / control / network-trace / bool-argument shapes: numeric argument layouts hit the 900 s cap, string and raw layouts exceed memory in the writer direction).',
    "functions": ['Message::as_bytes', 'StandardHeader::as_bytes', 'ExtendedHeader::as_bytes', 'StorageHeader::as_bytes', 'PayloadContent::as_bytes', 'Argument::as_bytes::<BE|LE>', 'parse::dlt_message', 'parse::dlt_message_intern', 'parse::dlt_standard_header', 'parse::dlt_extended_header', 'parse::dlt_storage_header', 'parse::dlt_payload', 'parse::dlt_argument::<BE|LE>', 'parse::dlt_zero_terminated_string_intern'],
    "bounds": 'messages <= 96 bytes, <= 2 arguments, names/units/strings/raw 0..3 bytes, tail 1..3 symbolic bytes',
    "outside": 'longer strings, > 2 arguments, total length near 65535, symbolic id/text contents (C19), symbolic control bytes (C14, c02d)',
    "assumptions": COMMON_ASSUME + ['std::fmt::format stubbed (messages not compared)', 'core::str::from_utf8 replaced by a byte-wise model checked against std (c19_utf8_model_vs_std)', 'forward_to_next_storage_header replaced by its specification (first occurrence) in whole-message storage-mode harnesses; the real function is checked against that specification in C06', 'ids, names, units and string contents are literals in whole-message harnesses (whether a byte is NUL is control for the parser); arbitrary contents are decided in C19 / c02d'],
    "trusted_base": ['reference encoder kani/src/refcodec.rs + shapes.rs (reading of the AUTOSAR layout)'],
    "harnesses": [H("c01::" + n, "quick", 900) for n in ["c01_p_nonverbose_min", "c01_p_nonverbose_ext_storage_be", "c01_p_control_le",
        "c01_p_verbose_bool_le", "c01_p_verbose_u32_named_be_storage", "c01_p_verbose_string_le", "c01_p_nettrace_le", "c01_p_nettrace_be", "c01_p_nettrace_empty", "c01_p_verbose_empty", "c01_p_nonverbose_nwtrace_type"]]
                 + [H("c01::" + n, "quick", 900, what="serialise-then-parse identity in one query") for n in ["c01_rt_nonverbose_min", "c01_rt_control_le", "c01_rt_verbose_bool_le", "c01_rt_nettrace_be", "c01_rt_nonverbose_nwtrace_type"]]
                 + [H("c02w::c02w_ids_multibyte_utf8", "quick", 600, what="ids with multi-byte UTF-8 characters are written into exactly 4 bytes (whole-message harnesses use ASCII ids)")]
                 + [H(e["name"], e["tier"], 900, what="serialise-then-parse identity in one query, one argument layout") for e in _json.load(open(_os.path.join(_os.path.dirname(_os.path.abspath(__file__)), "catalogue.json")))["rt_arg"]]
                 + [H("c01::c01_p_verbose_two_args_u8_bool", "quick", 900, what="two arguments in one verbose message (the second argument starts where the first ends)")]
                 + [H("c14::c14_msin_via_extended_header_parse", "quick", 300, what="every MSIN code (incl. reserved message types) is accepted and decoded by the extended-header parser"),
                    H("c14::c14_msin_via_extended_header_write", "quick", 300, what="every message type value is written as its MSIN code")]
                 + [H(e["name"], e["tier"], 900) for e in _json.load(open(_os.path.join(_os.path.dirname(_os.path.abspath(__file__)), "catalogue.json")))["p_arg"]],
}

PROPS["C06"] = {
    "level": "model_checking",
    "level_text": 'The real search (memchr::memmem behind forward_to_next_storage_header) is compared with a naive first-occurrence search on every input of up to 5, 6 and 8 bytes (three instances, so that a verdict is reached quickly whatever the implementation) and on literal junk ending in partial patterns directly in front of the pattern; junk ++ message ++ tail parses to the same message and remainder as message ++ tail for a catalogue of junk strings (including partial patterns directly before the pattern) with symbolic message data, also when a filter drops the message (marker carries the payload length, remainder unchanged); a stream msg, junk, msg is recovered in order.',
    "level_note": "memchr runs for real with the two CPU-detection intrinsics stubbed to 'no optional features' (baseline SSE2 / scalar searchers).",
    "functions": ['parse::forward_to_next_storage_header', 'parse::dlt_storage_header', 'parse::dlt_message'],
    "bounds": 'search: inputs <= 8 bytes; parse: junk strings of 1..7 literal bytes',
    "outside": 'longer inputs (vectorised paths of memchr for >= 16 bytes are trusted)',
    "assumptions": COMMON_ASSUME + ['std::fmt::format stubbed (messages not compared)', 'core::str::from_utf8 replaced by a byte-wise model checked against std (c19_utf8_model_vs_std)', 'core::arch::x86_64::__cpuid / __cpuid_count return zeros', 'ids, names, units and string contents are literals in whole-message harnesses (whether a byte is NUL is control for the parser); arbitrary contents are decided in C19 / c02d'],
    "trusted_base": ['memchr for haystacks > 8 bytes'],
    "harnesses": [H("c06::" + n, "quick", 900) for n in ["c06_search_real_memmem_8", "c06_search_real_5", "c06_search_real_6", "c06_search_real_partial_prefixes", "c06_storage_header_behind_literal_junk", "c06_junk_1", "c06_junk_2", "c06_junk_3", "c06_junk_partial_d",
                  "c06_junk_partial_dlt", "c06_junk_partial_ddl", "c06_junk_3_filtered_out", "c06_stream_with_junk_between"]],
}


import json as _json, os as _os
_cat = _json.load(open(_os.path.join(_os.path.dirname(_os.path.abspath(__file__)), "catalogue.json")))
_wq = ["c02w_storage_header_id4", "c02w_storage_header_id1", "c02w_standard_header_c0", "c02w_standard_header_c7", "c02w_standard_header_c2",
       "c02w_standard_header_c5", "c02w_extended_header_id4", "c02w_extended_header_id1"]
_wt = ["c02w_storage_header_id0", "c02w_storage_header_id3", "c02w_standard_header_c1", "c02w_standard_header_c3", "c02w_standard_header_c4",
       "c02w_standard_header_c6", "c02w_extended_header_id0", "c02w_extended_header_id3"]
_w = _wq + ["c02w_payload_nonverbose_control", "c02w_payload_nettrace_le", "c02w_payload_nettrace_be", "c02w_ids_multibyte_utf8"]
_wmsg = ["c02w_msg_nonverbose_min", "c02w_msg_nonverbose_ext_storage_be", "c02w_msg_control_le", "c02w_msg_nettrace_be", "c02w_msg_nettrace_storage_le", "c02w_msg_nettrace_empty", "c02w_msg_verbose_f64_all_le", "c02w_msg_verbose_sfix64_v_storage",
         "c02w_msg_verbose_bool_le", "c02w_msg_verbose_u32_named_be_storage", "c02w_msg_verbose_empty"]
_wmsg_q = ["c02w_msg_nonverbose_ext_storage_be", "c02w_msg_control_le", "c02w_msg_nettrace_be", "c02w_msg_verbose_bool_le", "c02w_msg_verbose_sfix64_v_storage"]
_d = []
_dt = ["c02d_standard_header_full_length", "c02d_extended_header_full_length", "c02d_standard_header_all_bytes", "c02d_extended_header_all_bytes", "c02d_storage_header_fields"]
PROPS["C02"] = {
    "level": "model_checking",
    "level_text": "Encoding: Message::as_bytes of whole messages (12 message shapes + every numeric and bool argument layout as the single argument of a message) and every writer unit (storage / standard / extended header, each argument layout in both byte orders, payload kinds) are compared byte for byte with an independently written reference encoder for all field values. Decoding: header parsers on fully symbolic bytes (all 256 HTYP, all 256 MSIN, arbitrary id bytes, symbolic available length) against the reference decoder; message / filtered / incomplete / reject verdict and consumed length per shape and declared-length class (C04's harnesses carry the reference verdict); all 2^32 type-info words in C14.",
    "level_note": "Agreement on arbitrary byte strings is decided per unit and per shape, not for whole messages with symbolic control (that does not finish). The crate's canonical bool type info has TYLE=0 (TYLE=1..15 accepted on decode).",
    "functions": ['StorageHeader::as_bytes', 'StandardHeader::as_bytes', 'ExtendedHeader::as_bytes', 'Argument::as_bytes::<BE|LE>', 'Argument::len', 'PayloadContent::as_bytes', 'TypeInfo::as_bytes', 'parse::dlt_standard_header', 'parse::dlt_extended_header', 'parse::dlt_storage_header'],
    "bounds": 'header units: 16 / 12 / 18 symbolic bytes; argument layouts of the catalogue (80 shapes); payloads of <= 3 slices or one argument in the writer direction (the concatenation of two arguments, c02w_payload_verbose_concat, did not finish: 27 GB after 44 min)',
    "outside": 'whole-message writer for string arguments and for two or more arguments / slices (units only: the string writer sizes its buffer from a length inside an enum, which makes the allocation size symbolic; two-slice payloads give a CBMC counterexample that does not reproduce natively)',
    "assumptions": COMMON_ASSUME + ['std::fmt::format stubbed (messages not compared)', 'core::str::from_utf8 replaced by a byte-wise model checked against std (c19_utf8_model_vs_std)', 'forward_to_next_storage_header replaced by its specification (first occurrence) in whole-message storage-mode harnesses; the real function is checked against that specification in C06', 'ids, names, units and string contents are literals in whole-message harnesses (whether a byte is NUL is control for the parser); arbitrary contents are decided in C19 / c02d'],
    "trusted_base": ['reference encoder / decoder in kani/src (refcodec.rs, shapes.rs, c02d.rs)'],
    "harnesses": [H("c02w::" + n, "quick", 900) for n in _w] + [H("c02d::" + n, "quick", 900, allow_unsat_covers=["empty input incomplete", "15 bytes incomplete", "len == 9"]) for n in _d]
                 + [H("c02d::" + n, "thorough", 2400, allow_unsat_covers=(["empty input incomplete", "15 bytes incomplete", "len == 9"] if "full_length" in n else [])) for n in _dt]
                 # decoder side in the quick tier: header fields for all HTYP / MSIN / id contents (shared with C14 / C19) and
                 # message / incomplete / reject verdicts incl. consumed length for corrupted declared lengths (shared with C04)
                 + [H(n, "quick", 900) for n in ["c14::c14_htyp_via_standard_header", "c14::c14_msin_via_extended_header_parse", "c19::c19_ids_extended_header",
                    "c19::c19_ids_standard_header_ecu", "gen_c04::c04_verbose_u16_be_nofilter_p0", "gen_c04::c04_verbose_u16_be_nofilter_m1",
                    "gen_c04::c04_nonverbose_min_nofilter_p4", "gen_c04::c04_nonverbose_min_nofilter_m1", "gen_c04::c04_control_storage_nofilter_p1",
                    "gen_c04::c04_verbose_noargs_nofilter_p1", "c01::c01_p_nettrace_empty", "c01::c01_p_nonverbose_nwtrace_type"]]
                 + [H("c15::c15_back_nettrace_be", "quick", 900, what="bytes of a message built by Message::new == reference encoding of the configuration (LEN included)")]
                 + [H("c02w::" + n, "thorough", 900) for n in _wt]
                 + [H("c02w::" + n, "quick" if n in _wmsg_q else "thorough", 900, what="Message::as_bytes == reference encoding of the whole message") for n in _wmsg]
                 + [H(e["name"], "thorough", 900, what="Message::as_bytes == reference encoding, one argument layout") for e in _cat["wm_arg"]]
                 + [H("c02w::c02w_message_whole_nonverbose_min", "thorough", 1800)]
                 + [H("c14::c14_typeinfo_all_words", "quick", 300, what="accept/reject and decoded description for all 2^32 type-info words (shared with C14)")]
                 + [H(e["name"], e["tier"], 900) for e in _cat["w_arg"]],
}

PROPS["C04"] = {
    "level": "model_checking",
    "level_text": "For each shape x filter mode x declared-length class the solver decides, for all data, that the parser's verdict is the reference verdict (message / filtered-out / incomplete / reject) and that whenever it returns Ok the remainder is the strict suffix starting exactly at the declared end, with FilteredOut(n) carrying LEN - headers; dlt_consume_msg likewise; validated_payload_length is decided for every header, every u16 length and every usize of remaining bytes.",
    "level_note": 'Length classes: exact, -1, -2, +1, +3 (inside the 3-byte tail), +4 (beyond the buffer), below the headers. Filter modes: none, all-None, app set empty (drops everything), level Fatal.',
    "functions": ['parse::dlt_message_intern', 'parse::validated_payload_length', 'parse::dlt_payload', 'parse::filtered_out', 'parse::dlt_consume_msg', 'parse::skip_storage_header'],
    "bounds": '9 shapes, 7 length classes, 4 filter modes (115 harnesses, 34 in quick)',
    "outside": 'length values between the classes; shapes outside the catalogue',
    "assumptions": COMMON_ASSUME + ['std::fmt::format stubbed (messages not compared)', 'core::str::from_utf8 replaced by a byte-wise model checked against std (c19_utf8_model_vs_std)', 'forward_to_next_storage_header replaced by its specification (first occurrence) in whole-message storage-mode harnesses; the real function is checked against that specification in C06', 'ids, names, units and string contents are literals in whole-message harnesses (whether a byte is NUL is control for the parser); arbitrary contents are decided in C19 / c02d', 'RandomState::new replaced by fixed keys (empty HashSet construction)'],
    "trusted_base": ['reference verdict computed by gen_catalogue.py from the layout'],
    "harnesses": [H("c04::c04_skipper_storage_shapes", "quick", 900), H("c04::c04_validated_payload_length_all", "quick", 300),
                  H("c06::c06_junk_3_filtered_out", "quick", 900, what="junk in front of the storage header + a filter that drops the message: remainder still at the declared end"),
                  H("c19::c19_ids_extended_header", "thorough", 600, what="header parsers consume exactly their field sizes for ANY id bytes (the message end is computed from where the header parsers stop)"),
                  H("c19::c19_ids_standard_header_ecu", "quick", 600, what="same, ECU id of the standard header")]
                 + [H(e["name"], e["tier"], 900) for e in _cat["c04"]],
}
PROPS["C05"] = {
    "level": "model_checking",
    "level_text": "Every cut position of every catalogue shape is decided (3 cuts per solver query, all data symbolic): the parser reports IncompleteParse with a hint between 1 and the number of missing bytes, the skipper likewise (and 'no message' only on empty input).",
    "level_note": 'Cut positions and shapes are enumerated exhaustively; data values by the solver.',
    "functions": ['parse::dlt_message', 'parse::dlt_consume_msg', 'parse::dlt_storage_header', 'parse::validated_payload_length'],
    "bounds": '8 shapes (10..37 bytes); whole-message cuts inside the storage header, inside the extended header (shapes without storage header, except directly behind the MSIN byte) and behind the headers (non-verbose / control payloads); cuts inside the standard header at unit level',
    "outside": 'messages outside the catalogue',
    "assumptions": COMMON_ASSUME + ['std::fmt::format stubbed (messages not compared)', 'core::str::from_utf8 replaced by a byte-wise model checked against std (c19_utf8_model_vs_std)', 'forward_to_next_storage_header replaced by its specification (first occurrence) in whole-message storage-mode harnesses; the real function is checked against that specification in C06', 'ids, names, units and string contents are literals in whole-message harnesses (whether a byte is NUL is control for the parser); arbitrary contents are decided in C19 / c02d'],
    "trusted_base": [],
    "harnesses": [H(e["name"], e["tier"], 900) for e in _cat["c05"]]
                 + [H("c05::" + n, "quick", 600, what="cuts inside a header, unit level") for n in ["c05_hdr_std_all_4_8", "c05_hdr_std_weid_4_8", "c05_hdr_ext_5_10"]]
                 + [H("c05::" + n, "thorough", 3600, what="cuts inside a header, unit level") for n in ["c05_hdr_std_min_0_4", "c05_hdr_std_all_0_4",
                    "c05_hdr_std_all_8_12", "c05_hdr_std_all_12_16", "c05_hdr_ext_0_5"]]
                 + [H("c02d::c02d_standard_header_all_bytes", "thorough", 1800), H("c02d::c02d_extended_header_all_bytes", "thorough", 1800)]
                 + [H("c05::c05_whole_verbose_bool_cut_20", "thorough", 900, what="whole-message cut inside the extended header (cuts inside the standard header and inside a verbose payload were re-measured: 900 s timeout each)")],
}

PROPS["C07"] = {
    "level": "model_checking",
    "level_text": 'The byte source is a harness-defined Read whose every read() returns Interrupted or min(k, available, buf.len()) with k from a symbolic schedule: partitions of the stream and placements of Interrupted are solver variables. Decided: no stream of up to 6 arbitrary bytes makes next_message_slice panic and a returned slice is exactly the cut at the declared length; two-message streams are delivered as exactly the two cuts then end-of-stream; a truncated tail never yields a slice; a message completely contained in the stream is never answered with an error; read_message equals dlt_message on the cut; the public constructor reserves storage header + 65535 bytes (so the length assumption below holds for every 16-bit length with new()).',
    "level_note": "Reader built with with_capacity(c, c, ..) for c = 6..8 and streams assumed to declare lengths <= c; that new() configures a maximum no 16-bit length can exceed is decided separately through the capacities hook (c07_new_reserves_largest_declarable_message). std's BufReader / read_exact run for real.",
    "functions": ['read::DltMessageReader::next_message_slice', 'read::read_message', 'parse::parse_length'],
    "bounds": 'streams <= 9 bytes, 3 scheduled read results (then complete reads), <= 2 messages',
    "outside": 'longer streams / schedules; storage-header mode of the reader (same code path with a 16-byte larger header read)',
    "assumptions": COMMON_ASSUME + ['std::fmt::format stubbed (messages not compared)', 'core::str::from_utf8 replaced by a byte-wise model checked against std (c19_utf8_model_vs_std)'],
    "trusted_base": ['std::io::BufReader, Read::read_exact'],
    "harnesses": [H("c07::" + n, "quick", 1500) for n in ["c07_any_stream_no_storage_6", "c07_first_of_two_messages_any_schedule",
                  "c07_read_message_equals_slice_parse"]]
                 + [H("c07::c07_new_reserves_largest_declarable_message", "quick", 300, fallback_playback=[[[0]], [[1]]],
                      what="DltMessageReader::new reserves storage header + 65535 bytes (both storage modes)")]
                 + [H("c07::c07_truncated_tail_any_schedule", "thorough", 3600, mem_gb=30), H("c07::c07_two_messages_any_schedule", "thorough", 5400, mem_gb=40)],
}

PROPS["C15"] = {
    "level": "model_checking",
    "level_text": 'Message::new is decided per payload kind (non-verbose, control, verbose, network trace) x optional fields for all data: recorded payload length == reference payload size, byte_len == headers + payload, verbose flag and argument count as the payload kind requires, add_storage_header(Some(ts)) only adds the given time and the header ECU id (or the default id); Argument::valid is decided for every (bool/f32/f64 kind x 15 value variants); Argument::len == serialised length for every layout and both byte orders (gen_args::w_arg_*); Message::byte_len == length of Message::as_bytes without storage header for whole messages (c02w_msg_*, gen_args::wm_arg_*).',
    "level_note": "add_storage_header(None) reads the system clock (FFI): outside. 'parses back to an equal message' is decided in one query per configuration shape (c15_back_*: Message::new -> as_bytes -> dlt_message) for non-verbose, control, network-trace, zero-argument and one-bool verbose configurations, and composes with RT / P(shape) of C01 for the other argument layouts.",
    "functions": ['Message::new', 'Message::byte_len', 'Message::add_storage_header', 'StandardHeader::overall_length', 'PayloadContent::{is_verbose, arg_count, as_bytes}', 'Argument::valid', 'Argument::len'],
    "bounds": '11 configuration shapes, <= 2 arguments / slices',
    "outside": 'configurations outside the catalogue; payloads > 64 KiB',
    "assumptions": COMMON_ASSUME + ['ids, names, units and string contents are literals in whole-message harnesses (whether a byte is NUL is control for the parser); arbitrary contents are decided in C19 / c02d'],
    "trusted_base": [],
    "harnesses": [H("c15::" + n, "quick", 900) for n in ["c15_new_nonverbose_noext", "c15_new_nonverbose_ext_be", "c15_new_control",
                  "c15_new_nettrace_le", "c15_new_nettrace_be", "c15_new_verbose_empty", "c15_new_nettrace_empty", "c15_valid_rejects_mismatched_values", "c15_storage_header_boundary_ecu_ids"]]
                 + [H("c15::" + n, "quick", 900) for n in ["c15_new_verbose_u16", "c15_new_verbose_string"]]
                 + [H("c15::" + n, "quick", 900, what="Message::new -> as_bytes -> dlt_message returns the configured message (one query)") for n in
                    ["c15_back_nonverbose_noext", "c15_back_control", "c15_back_nettrace_be", "c15_back_nettrace_empty", "c15_back_verbose_empty", "c15_back_verbose_bool"]]
                 + [H(e["name"], e["tier"], 900, what="Argument::len == serialised length (and bytes == reference)") for e in _cat["w_arg"]]
                 + [H("c02w::" + n, "quick", 900, what="byte_len == length of Message::as_bytes without storage header (whole message)") for n in _wmsg_q]
                 + [H(e["name"], e["tier"], 900, what="byte_len == serialised length, Message::as_bytes == reference, one argument layout") for e in _cat["wm_arg"]],
}

_c16_wp_quick = ["c02w::c02w_payload_nonverbose_control", "c02w::c02w_payload_nettrace_le", "c02w::c02w_payload_nettrace_be", "c02w::c02w_extended_header_id4",
                 "c02w::c02w_standard_header_c7", "c02w::c02w_storage_header_id4", "c02w::c02w_ids_multibyte_utf8", "c02w::c02w_msg_control_le", "c02w::c02w_msg_nettrace_be", "c02w::c02w_msg_verbose_bool_le", "c14::c14_typeinfo_all_words", "c14::c14_msin_via_extended_header_parse",
                 "c14::c14_msin_via_extended_header_write", "c01::c01_p_control_le", "c01::c01_p_nettrace_be", "c01::c01_p_nonverbose_ext_storage_be",
                 "gen_args::w_arg_bool_v", "gen_args::p_arg_bool_v", "gen_args::w_arg_u16", "gen_args::p_arg_u16", "gen_args::w_arg_string_v", "gen_args::p_arg_string_v",
                 "gen_args::w_arg_raw", "gen_args::p_arg_raw", "gen_args::w_arg_ufix32_v", "gen_args::p_arg_ufix32_v", "gen_args::w_arg_f32", "gen_args::p_arg_f32"]
PROPS["C16"] = {
    "level": "model_checking",
    "level_text": 'Compositional, every part decided by the solver in this check: (W) the writer units emit exactly the canonical reference encoding of every message value the parser can produce - including the non-canonical values it normalises into (ControlType::Unknown(n) for every service id, every MSIN code, reserved string codings) - and (P) the parser maps the canonical encoding back to that value, for all data; (D) non-canonical encodings the parser accepts (bool with TYLE 1 / 15, reserved and STRU type-info bits, FIXP on kinds that cannot be fixed point, id bytes after the first NUL, name / unit length fields of 0) parse to the same message value as their canonical form; type-info words and MSIN codes are decided for all 2^32 / 2^8 codes. W and P and D give bytes -> message -> bytes -> message stability by substitution.',
    "level_note": 'No single bytes -> message -> bytes -> message query: re-serialising a PARSED message inside one harness (c16_rt_*, kept in the source) exceeds memory because the parsed payload loses its concrete lengths when moved through Result / enum values, which makes the writer allocation sizes symbolic (measured: > 16 GB, 8 min).',
    "functions": ['parse::dlt_message', 'TypeInfo::try_from', 'parse::parse_ecu_id', 'PayloadContent::as_bytes', 'ExtendedHeader::as_bytes', 'StandardHeader::as_bytes', 'StorageHeader::as_bytes', 'Argument::as_bytes::<BE|LE>', 'ControlType::value'],
    "bounds": '6 dialect variants on 5 shapes; W / P: payload kinds, header units and 6 (quick) / 80 (thorough) argument layouts of the catalogue',
    "outside": 'dialect variants outside the list; shapes outside the catalogue',
    "assumptions": COMMON_ASSUME + ['std::fmt::format stubbed (messages not compared)', 'core::str::from_utf8 replaced by a byte-wise model checked against std (c19_utf8_model_vs_std)', 'ids, names, units and string contents are literals in whole-message harnesses (whether a byte is NUL is control for the parser); arbitrary contents are decided in C19 / c02d', 'forward_to_next_storage_header replaced by its specification (first occurrence) in whole-message storage-mode harnesses; the real function is checked against that specification in C06'],
    "trusted_base": ['reference encoder kani/src/refcodec.rs + shapes.rs (reading of the AUTOSAR layout)'],
    "harnesses": [H("c16::" + n, "quick", 900) for n in ["c16_bool_tyle_1", "c16_bool_tyle_15", "c16_u32_reserved_bits", "c16_raw_fixp_flag", "c16_id_bytes_after_nul"]]
                 + [H("c16::c16_name_unit_length_zero", "quick", 900, allow_unsat_covers=["dialect form parsed to the canonical value"],
                      what="name / unit length fields of 0: IF accepted, the same value as the canonical form (a refusal would not violate the property)")]
                 + [H(n, "quick", 900, what="W / P half of the composition (shared with C01 / C02 / C14)") for n in _c16_wp_quick]
                 + [H(e["name"], "thorough", 900) for e in _cat["w_arg"] + _cat["p_arg"] if e["name"] not in _c16_wp_quick]
                 + [H("c02w::" + n, "thorough", 900) for n in _wq + _wt if "c02w::" + n not in _c16_wp_quick]
                 + [H("c01::" + n, "thorough", 900) for n in ["c01_p_nonverbose_min", "c01_p_verbose_bool_le", "c01_p_verbose_u32_named_be_storage", "c01_p_verbose_string_le", "c01_p_nettrace_le", "c01_p_nettrace_empty", "c01_p_verbose_empty"]],
}

PROPS["C10"] = {
    "level": "model_checking",
    "level_text": 'Decided: the standard collector (collect_statistic x 1..3 messages, then collect()) equals an independent per-id tally for 5 id scenarios (same / different ECU ids, no ECU id = NONE, an ECU id that decodes to the empty string, application and context ids crossing, messages without extended header) with every level (None / 6 levels / Invalid(any)) and verbose flag symbolic, ECU totals = number of messages, non-verbose flag = exists non-verbose; bucket selection of LevelDistribution::new for every level, counter merge = field-wise sum, StatisticInfo::merge = per-id sum of the parts for 8 pairs of table shapes (ids in either order, missing ids), commutative, associative on three parts, the three tables merged independently (incl. parts without extended-header ids), non-verbose flag = disjunction; the scan loop of collect_statistics visits each message of a two-message stream exactly once, in order, with its decoded headers, under any read fragmentation.',
    "level_note": "The collector's id tables are MODELLED: feature verif_hooks swaps FxHashMap<String, LevelDistribution> for an association list with the same get_mut / insert / into_iter contract (symbolic execution of hashbrown does not finish even for one concrete insert + lookup). collect_statistic, add_for_level, collect and LevelDistribution::new are the real code; rustc_hash / hashbrown are trusted base.",
    "functions": ['statistics::common::StatisticInfoCollector::{collect_statistic, collect}', 'statistics::common::add_for_level', 'statistics::common::LevelDistribution::{new, merge}', 'statistics::common::StatisticInfo::{merge, merge_levels}', 'statistics::collect_statistics'],
    "bounds": '<= 2 distinct ids per table, <= 3 parts, <= 3 collected messages per scenario, 2-message streams, counters < 2^32',
    "outside": 'the hash map itself (modelled); id scenarios outside the five; longer streams',
    "assumptions": COMMON_ASSUME + ['std::fmt::format stubbed (messages not compared)', 'core::str::from_utf8 replaced by a byte-wise model checked against std (c19_utf8_model_vs_std)'],
    "trusted_base": ['rustc_hash / hashbrown'],
    "harnesses": [H("c10::" + n, "quick", 900) for n in ["c10_level_distribution_new_buckets", "c10_level_distribution_merge_is_sum", "c10_merge_00",
                  "c10_merge_12", "c10_merge_11", "c10_merge_03", "c10_merge_ecu_only_part", "c10_scan_visits_each_message_once", "c10_collector_s0", "c10_collector_s1", "c10_collector_s2", "c10_collector_s3", "c10_collector_s4"]]
                 + [H("c10::" + n, "thorough", 3600, mem_gb=30) for n in ["c10_merge_41", "c10_merge_tables_independent", "c10_merge_30"]],
}

PROPS["C03"] = {
    "level": "model_checking",
    "level_text": "Kani's built-in checks are the property (arithmetic overflow, slice/array bounds, unwrap/expect, unreachable, pointer validity): harnesses run with CBMC's bounds and pointer checks ON over fully symbolic header bytes, declared lengths one byte beyond the buffer with and without a filter in storage-header mode, and Message::as_bytes of a stored message that declares the largest 16-bit length. Returned messages are measured and their arguments pass valid().",
    "level_note": 'Panic-freedom of the remaining entry points on symbolic bytes comes from the C02d / C04 / C05 / C06 / C13 / C19 harnesses (same code, panics are checked there too, without the extra memory-safety checks).',
    "functions": ['parse::skip_storage_header', 'parse::dlt_consume_msg', 'parse::dlt_message', 'Argument::len', 'Argument::as_bytes', 'Argument::valid', 'Message::byte_len'],
    "bounds": 'inputs <= 22 symbolic bytes for units; whole-message shapes with corrupted declared lengths from the C04 catalogue; declared length 65535 for Message::as_bytes',
    "outside": 'inputs > 64 KiB; simultaneous corruption of several control bytes; names / strings longer than 3 bytes in serialisation (the 65523-byte name harness c03_len_arith_longest_name is kept in the source but not registered: CBMC crashes on the 65 KiB vector)',
    "assumptions": COMMON_ASSUME + ['std::fmt::format stubbed (messages not compared)', 'core::str::from_utf8 replaced by a byte-wise model checked against std (c19_utf8_model_vs_std)', 'forward_to_next_storage_header replaced by its specification (first occurrence) in whole-message storage-mode harnesses; the real function is checked against that specification in C06', 'ids, names, units and string contents are literals in whole-message harnesses (whether a byte is NUL is control for the parser); arbitrary contents are decided in C19 / c02d'],
    "trusted_base": [],
    "harnesses": [H("c03::" + n, "quick", 900, mem_checks=True) for n in ["c03_skip_storage_header_any_bytes", "c03_consume_msg_any_htyp_len_full",
                  "c03_consume_msg_any_htyp_len_truncated", "c03_message_as_bytes_largest_declared_length"]]
                 + [H("c04::c04_validated_payload_length_all", "quick", 300, what="length arithmetic for every header, every declared length and EVERY usize of remaining bytes (inputs > 64 KiB included): no overflow / underflow")]
                 # the same harnesses as in C02 / C04 / C05 / C06 / C13 / C19, re-run here with CBMC's bounds and pointer checks ON
                 + [H(n, "quick", 1200, mem_checks=True, what="re-run with memory-safety checks") for n in [
                    "c19::c19_zstring_model_utf8", "c06::c06_search_real_memmem_8", "c13::c13_u16_raw", "c13::c13_raw", "c13::c13_bool", "c13::c13_string_len2_be",
                    "gen_c04::c04_verbose_u16_be_nofilter_m1", "gen_c04::c04_verbose_u16_be_nofilter_p1", "gen_c04::c04_nonverbose_min_nofilter_m2",
                    "gen_c04::c04_control_storage_nofilter_p4", "gen_c04::c04_control_storage_dropall_p4", "gen_c05::c05_nonverbose_min_5_6"]]
                 + [H(n, "thorough", 2400, mem_checks=True, what="re-run with memory-safety checks") for n in [
                    "c02d::c02d_standard_header_all_bytes", "c02d::c02d_extended_header_all_bytes", "c02d::c02d_storage_header_fields",
                    "c19::c19_zstring_std_utf8", "c13::c13_string_u32", "c13::c13_u128"]],
}

PROPS["C08"] = {
    "level": "model_checking", "not_claimed": True,
    "level_text": 'The future returned by DltStreamReader::next_message_slice is polled by hand with a no-op waker; the AsyncRead source returns Pending or Ready(k) from a symbolic schedule. Decided: same cuts and terminal outcome as the blocking reader for two-message streams under any schedule, and for any stream of up to 6 arbitrary bytes the same slice / same outcome class as the blocking reader run on the same bytes; never panics.',
    "level_note": "No executor, no threads (a future is a state machine); futures' BufReader and read_exact run for real.",
    "functions": ['stream::DltStreamReader::next_message_slice'],
    "bounds": 'streams <= 9 bytes, 3 scheduled poll results, capacity 6..8',
    "outside": 'stream::read_message wrapper (identical to read::read_message); longer schedules',
    "assumptions": COMMON_ASSUME + ['std::fmt::format stubbed (messages not compared)', 'core::str::from_utf8 replaced by a byte-wise model checked against std (c19_utf8_model_vs_std)'],
    "trusted_base": ['futures::io::BufReader, AsyncReadExt::read_exact'],
    "harnesses": [H("c08::" + n, "quick", 1500) for n in ["c08_one_message_any_schedule", "c08_two_messages_any_schedule", "c08_any_stream_same_as_blocking_6", "c08_second_header_any_bytes"]],
}

