"""Registry of checks: per property the harnesses (Kani) and SMT obligations,
their tier, resource caps and what they decide. Read by run.py."""


def H(name, tier="quick", timeout=600, what="", **kw):
    d = {"name": name, "tier": tier, "timeout": timeout, "what": what}
    d.update(kw)
    return d


COMMON_ASSUME = [
    "allocation never fails (Kani default); single-threaded execution",
    "log crate disabled (max_level Off): trace!/warn! arguments are never evaluated",
    "dev-profile semantics (overflow checks on) is what Kani models; release behaviour is observed only in replays",
]
STUB_FMT = "std::fmt::format is stubbed to return an empty String: error messages are not compared, error classes are"
STUB_UTF8 = ("core::str::from_utf8 is replaced by a byte-wise validator with the same contract (models.rs); the model is itself "
             "checked against std for every input of up to 4 bytes (c19::c19_utf8_model_vs_std)")

PROPS = {}

PROPS["C14"] = {
    "level": "model_checking",
    "level_text": "Bounded model checking that is complete for the three code domains: every one of the 2^32 type-info words, 2^8 MSIN bytes and "
                  "2^8 HTYP bytes is covered by a solver query over the compiled conversion functions, compared with a bit-layout oracle "
                  "written from the PRS tables. Exhaustive where tests sample.",
    "level_note": "Trusts Kani's MIR->goto translation, CBMC/CaDiCaL, the oracle's reading of the bit tables; fmt::format and from_utf8 stubbed "
                  "(messages / UTF-8 validation are not the subject); STRU and reserved bits treated as format-unused.",
    "exhaustive": True,
    "functions": ["TypeInfo::try_from(u32)", "TypeInfo::as_bytes::<BE|LE>", "MessageType::try_from(u8)", "u8::from(&MessageType)",
                  "parse::dlt_extended_header", "ExtendedHeader::as_bytes", "StandardHeader::header_type_byte", "parse::dlt_standard_header",
                  "dlt::calculate_standard_header_length", "dlt::calculate_all_headers_length", "StandardHeader::overall_length"],
    "bounds": "complete domains: all 2^32 type-info words, all 2^8 MSIN bytes, all 2^8 HTYP bytes (16 fully symbolic header bytes); "
              "ids in the extended-header harness are fixed 4-byte ASCII",
    "outside": "nothing inside the three code domains; id contents are C19's subject",
    "assumptions": COMMON_ASSUME + [STUB_FMT, STUB_UTF8,
                                    "STRU (bit 14) and reserved bits 18..31 are treated as format-unused: the crate's TypeInfo does not model them"],
    "trusted_base": ["reading of the PRS type-info / MSIN / HTYP bit tables in c14.rs"],
    "harnesses": [
        H("c14::c14_typeinfo_all_words", timeout=300, what="all 2^32 type-info words: accept/reject predicate, decoded description, re-encode, byte-reversal"),
        H("c14::c14_msin_all_bytes", timeout=120, what="all 256 MSIN bytes through MessageType conversions"),
        H("c14::c14_msin_via_extended_header_parse", timeout=300, what="all 256 MSIN x 256 NOAR through dlt_extended_header"),
        H("c14::c14_msin_via_extended_header_write", timeout=300, what="all 256 MSIN x 256 NOAR through ExtendedHeader::as_bytes"),
        H("c14::c14_htyp_compose", timeout=120, what="header_type_byte / header-length helpers for all flag combinations and versions"),
        H("c14::c14_htyp_via_standard_header", timeout=600, what="16 fully symbolic bytes through dlt_standard_header: flags, version, LEN, re-encode"),
    ],
}

PROPS["C19"] = {
    "level": "model_checking",
    "level_text": "Bounded model checking of dlt_zero_terminated_string for every buffer of up to 6 bytes (contents and length symbolic) and every "
                  "size 0..65535 against an independent oracle (first NUL, longest valid UTF-8 prefix, exact consumption, hint <= shortfall); run "
                  "with std's real UTF-8 validator and with a byte-wise model that is itself checked against std.",
    "level_note": "Bound: 6-byte buffers. Trusts Kani/CBMC; fmt::format stubbed. Ids inside whole messages are covered by the header harnesses of C02/C14.",
    "functions": ["parse::dlt_zero_terminated_string", "parse::dlt_zero_terminated_string_intern", "parse::parse_ecu_id", "parse::dlt_extended_header", "parse::dlt_standard_header", "parse::dlt_storage_header"],
    "bounds": "buffers of 0..6 fully symbolic bytes (symbolic length), size symbolic over 0..65535",
    "outside": "buffers longer than 6 bytes (the function keeps no state across bytes other than 'seen NUL' and the UTF-8 automaton, "
               "whose longest sequence is 4 bytes)",
    "assumptions": COMMON_ASSUME + [STUB_FMT, STUB_UTF8 + " (one harness runs with std's real validator instead)"],
    "trusted_base": ["std's UTF-8 validator (real in c19_zstring_std_utf8)"],
    "harnesses": [
        H("c19::c19_zstring_model_utf8", timeout=300, what="oracle comparison with the UTF-8 model"),
        H("c19::c19_zstring_std_utf8", timeout=900, what="same with std's from_utf8"),
        H("c19::c19_utf8_model_vs_std", timeout=600, what="UTF-8 model == std::str::from_utf8 for all inputs up to 4 bytes"),
        H("c19::c19_ids_extended_header", timeout=600, what="application / context id: all contents of both 4-byte fields"),
        H("c19::c19_ids_standard_header_ecu", timeout=600, what="ECU id of the standard header: all contents"),
        H("c19::c19_ids_storage_header_ecu", timeout=600, what="ECU id of the storage header: all contents"),
    ],
}

PROPS["C17"] = {
    "level": "model_checking",
    "engine": "mir-smt",
    "technique": "MIR -> SMT-LIB translation of the real functions; negated property decided by cvc5 (bit-vectors as integers) and z3 (integer encoding with explicit wrap-around); models replayed natively",
    "level_text": "The two kernels are loop-free, so the SMT queries cover every u64 input admitted by the property's precondition (no bound). "
                  "Each obligation (no overflow/division panic, microseconds < 10^6, seconds*10^6+microseconds == input) is decided on two independent "
                  "encodings by two solvers that must agree; the translator is validated against the native function on every run.",
    "level_note": "Trusts the nightly MIR dump, the 250-line translator (validated on 20 concrete inputs per kernel per run), cvc5 and z3. MIR is the "
                  "overflow-checks=on (dev) body; release is observed in replays.",
    "exhaustive": True,
    "functions": ["DltTimeStamp::from_ms", "DltTimeStamp::from_us"],
    "bounds": "all u64 inputs with input / unit-per-second < 2^32 (the property's own precondition); no other bound: the kernels are loop-free",
    "outside": "inputs whose whole seconds do not fit 32 bits (excluded by the property itself)",
    "assumptions": ["MIR semantics of Div/Rem/IntToInt/MulWithOverflow/assert as encoded in smt/mir2smt.py (validated on every run against the "
                    "native function on boundary and seeded inputs)", "overflow-checks=on MIR (dev profile); release behaviour observed in replays"],
    "trusted_base": ["rustc nightly MIR dump", "smt/mir2smt.py", "cvc5 1.0 (int-blasting), z3 4.8.12"],
    "smt": [
        {"name": "from_ms", "suffix": "::from_ms(", "unit_per_sec": 1000},
        {"name": "from_us", "suffix": "::from_us(", "unit_per_sec": 1000000},
    ],
    "harnesses": [],
}


NOT_APPLICABLE = [
    {"property_id": "C11", "reason": "quantifies over XML documents on disk parsed by quick-xml into HashMaps; no unit carrying the property is within reach of bounded symbolic execution (DESIGN.md C11)"},
]

PROPS["C18"] = {
    "level": "model_checking",
    "level_text": "Bounded model checking of Argument::to_real_value over the complete value domains: every kind, every value variant, presence of "
                  "fixed-point data, all 2^32 f32 quantisations (NaN, inf, negative, subnormal), all i32/i64 offsets and all values of the "
                  "variant's width; oracle recomputes the double-precision product and does the integer part in i128. No loop, so no unwind bound.",
    "level_note": "One harness per (integer variant x offset width); CBMC's IEEE-754 float encoding is trusted for the f64 multiply and the "
                  "float->int cast (--nan-check on).",
    "functions": ["Argument::to_real_value", "Argument::log_v", "Argument::value_as_f64"],
    "bounds": "none on values: all bit patterns of value, quantisation and offset per harness; kind/presence symbolic",
    "outside": "nothing within the function's input domain (names/units/type-info flags do not influence it)",
    "assumptions": COMMON_ASSUME,
    "trusted_base": ["CBMC floating-point encoding"],
    "harnesses": [
        H("c18::c18_non_integer_values_yield_nothing", timeout=300, what="non-integer / 128-bit values x all kinds: None, no panic"),
        H("c18::c18_i32_off32", timeout=900, what="I32 value, i32 offset, all f32 quantisations"),
        H("c18::c18_u8_off32", timeout=900, what="U8 value, i32 offset"),
        H("c18::c18_u16_off64", timeout=900, what="U16 value, i64 offset"),
        H("c18::c18_i8_off64", timeout=900, what="I8 value, i64 offset"),
        H("c18::c18_u64_off32_literal_q", timeout=900, what="U64 value (all), i32 offset (all), quantisation in {1, 0.25, 0.125, 3, -1}"),
        H("c18::c18_u64_off64_literal_q", timeout=900, what="U64 value, i64 offset, literal quantisations"),
        H("c18::c18_i64_off64_literal_q", timeout=900, what="I64 value, i64 offset, literal quantisations"),
        H("c18::c18_u32_off64_literal_q", timeout=900, what="U32 value, i64 offset, literal quantisations"),
        H("c18::c18_i8_off32", "thorough", 1800), H("c18::c18_i16_off32", "thorough", 1800), H("c18::c18_i16_off64", "thorough", 1800),
        H("c18::c18_i32_off64", "thorough", 5400), H("c18::c18_i64_off32", "thorough", 5400), H("c18::c18_i64_off64", "thorough", 7200),
        H("c18::c18_u8_off64", "thorough", 1800), H("c18::c18_u16_off32", "thorough", 1800), H("c18::c18_u32_off32", "thorough", 3600),
        H("c18::c18_u32_off64", "thorough", 3600), H("c18::c18_u64_off32", "thorough", 5400), H("c18::c18_u64_off64", "thorough", 7200),
    ],
}

_c13_quick = ["c13_bool", "c13_u16", "c13_s32", "c13_f32", "c13_u128", "c13_string", "c13_raw", "c13_u16_raw", "c13_u8_string_u32",
              "c13_empty_list", "c13_fixed_point_s32_no_panic", "c13_fixed_point_u64_no_panic"]
_c13_all = ["c13_bool", "c13_u8", "c13_u16", "c13_u32", "c13_u64", "c13_u128", "c13_s8", "c13_s16", "c13_s32", "c13_s64", "c13_s128",
            "c13_f32", "c13_f64", "c13_string", "c13_raw", "c13_u16_raw", "c13_string_u32", "c13_bool_f64", "c13_raw_string",
            "c13_u8_string_u32", "c13_s16_s16_s16", "c13_empty_list", "c13_fixed_point_s32_no_panic", "c13_fixed_point_u32_no_panic",
            "c13_fixed_point_s64_no_panic", "c13_fixed_point_u64_no_panic"]
PROPS["C13"] = {
    "level": "model_checking",
    "level_text": "Bounded model checking of construct_arguments per concrete signal-type list: payload bytes, payload length (0 .. exact size + 2) and "
                  "byte order are symbolic, so every 'too short at position k', 'exact' and 'trailing bytes' case and every value is covered by the "
                  "solver; the oracle is an independent field-by-field decoder on the byte array.",
    "level_note": "Type lists are enumerated (all 15 supported single kinds, 5 pairs/triples, the empty list); declared string/raw lengths are "
                  "bounded by 3 when they fit the buffer. fmt::format and from_utf8 stubbed (String::from_utf8's validation is modelled). "
                  "Fixed-point kinds: only absence of panics.",
    "functions": ["parse::construct_arguments", "parse::dlt_uint", "parse::dlt_sint", "parse::dlt_fint", "parse::dlt_fixed_point"],
    "bounds": "type lists of <= 3 entries from the catalogue; payload <= exact size + 2 bytes (<= 18 bytes); string/raw declared length <= 3 when in range",
    "outside": "type lists outside the catalogue (the per-type code is list-independent except for the running offset, which the pair/triple lists exercise); "
               "strings/raw longer than 3 bytes",
    "assumptions": COMMON_ASSUME + [STUB_FMT, STUB_UTF8],
    "trusted_base": [],
    "harnesses": [H("c13::" + n, "quick" if n in _c13_quick else "thorough", 900, what="type list " + n[4:],
                    allow_unsat_covers=(["payload refused"] if n == "c13_empty_list" else [])) for n in _c13_all],
}

PROPS["C09"] = {
    "level": "model_checking",
    "level_text": "The filter decision procedure is decided as a solver query over all criteria at once: extended header present/absent, every message "
                  "type and level (incl. Invalid(0..255)), every minimum level number, each id set absent/present, arbitrary membership answers "
                  "(uninterpreted oracle that also asserts the right key is looked up in the right set), arbitrary i64 id counts vs set sizes 0/1. "
                  "Conversions DltFilterConfig -> ProcessedDltFilterConfig are decided for all Option<u8> levels.",
    "level_note": "HashSet::contains is replaced by an uninterpreted oracle (std's SipHash/hashbrown lookup is trusted base); RandomState::new is "
                  "replaced by fixed keys; non-empty Vec->HashSet conversion (std FromIterator) is trusted. The consumed length of filtered messages is "
                  "checked in C04's harnesses.",
    "functions": ["parse::filtered_out", "ExtendedHeader::skip_with_level", "ProcessedDltFilterConfig::from(DltFilterConfig)",
                  "ProcessedDltFilterConfig::from(&DltFilterConfig)", "dlt::u8_to_log_level"],
    "bounds": "id sets of size 0 or 1 (size only matters through len() vs the counts); id strings empty (membership is abstracted)",
    "outside": "real hash lookups for non-empty sets; sets with more than one element",
    "assumptions": COMMON_ASSUME + ["HashSet::contains answers are arbitrary booleans (sound over-approximation of any set contents)",
                                    "minimum levels built directly as LogLevel::Invalid(_) are outside the configuration space (only absence of panics is checked)"],
    "trusted_base": ["std HashSet lookup", "std FromIterator for HashSet"],
    "harnesses": [
        H("c09::c09_skip_with_level_all", timeout=300, what="level ordering incl. invalid levels, all message types"),
        H("c09::c09_config_conversion_owned", timeout=600, what="owned conversion, all Option<u8> levels, 8 presence combinations"),
        H("c09::c09_config_conversion_borrowed", timeout=600, what="borrowed conversion, all Option<u8> levels, 8 presence combinations"),
        H("c09::c09_filtered_out_decision_table", timeout=900, what="decision table: criteria absent / present-with-empty-set, all types, levels, counts"),
    ],
}


PROPS["C01"] = {
    "level": "model_checking", "level_text": "wip", "level_note": "wip", "not_claimed": True,
    "functions": [], "bounds": "", "outside": "", "assumptions": COMMON_ASSUME, "trusted_base": [],
    "harnesses": [H("c01::" + n, "quick", 900) for n in ["c01_p_nonverbose_min", "c01_p_nonverbose_ext_storage_be", "c01_p_control_le",
        "c01_p_verbose_bool_le", "c01_p_verbose_u32_named_be_storage", "c01_p_verbose_string_le", "c01_p_nettrace_le", "c01_p_nettrace_be", "c01_probe_storage_fwdstub"]],
}

PROPS["C06"] = {
    "level": "model_checking", "level_text": "wip", "level_note": "wip", "not_claimed": True,
    "functions": [], "bounds": "", "outside": "", "assumptions": COMMON_ASSUME, "trusted_base": [],
    "harnesses": [H("c06::" + n, "quick", 900) for n in ["c06_search_real_memmem_8", "c06_junk_1", "c06_junk_2", "c06_junk_3", "c06_junk_partial_d",
                  "c06_junk_partial_dlt", "c06_junk_partial_ddl", "c06_stream_with_junk_between"]],
}


import json as _json, os as _os
_cat = _json.load(open(_os.path.join(_os.path.dirname(_os.path.abspath(__file__)), "catalogue.json")))
_wq = ["c02w_storage_header_id4", "c02w_storage_header_id1", "c02w_standard_header_c0", "c02w_standard_header_c7", "c02w_standard_header_c2",
       "c02w_standard_header_c5", "c02w_extended_header_id4", "c02w_extended_header_id1"]
_wt = ["c02w_storage_header_id0", "c02w_storage_header_id3", "c02w_standard_header_c1", "c02w_standard_header_c3", "c02w_standard_header_c4",
       "c02w_standard_header_c6", "c02w_extended_header_id0", "c02w_extended_header_id3"]
_w = _wq + ["c02w_payload_nonverbose_control", "c02w_payload_nettrace_le", "c02w_payload_nettrace_be", "c02w_payload_verbose_concat"]
_d = ["c02d_standard_header_full_length", "c02d_extended_header_full_length"]
_dt = ["c02d_standard_header_all_bytes", "c02d_extended_header_all_bytes", "c02d_storage_header_fields"]
PROPS["C02"] = {
    "level": "model_checking", "level_text": "wip", "level_note": "wip", "not_claimed": True,
    "functions": [], "bounds": "", "outside": "", "assumptions": COMMON_ASSUME, "trusted_base": [],
    "harnesses": [H("c02w::" + n, "quick", 900) for n in _w] + [H("c02d::" + n, "quick", 900, allow_unsat_covers=["empty input incomplete", "15 bytes incomplete", "len == 9"]) for n in _d]
                 + [H("c02d::" + n, "thorough", 1800) for n in _dt]
                 + [H("c02w::" + n, "thorough", 900) for n in _wt]
                 + [H(e["name"], e["tier"], 900) for e in _cat["w_arg"]],
}

PROPS["C04"] = {
    "level": "model_checking", "level_text": "wip", "level_note": "wip", "not_claimed": True,
    "functions": [], "bounds": "", "outside": "", "assumptions": COMMON_ASSUME, "trusted_base": [],
    "harnesses": [H("c04::c04_skipper_storage_shapes", "quick", 900), H("c04::c04_validated_payload_length_all", "quick", 300)]
                 + [H(e["name"], e["tier"], 900) for e in _cat["c04"]],
}
PROPS["C05"] = {
    "level": "model_checking", "level_text": "wip", "level_note": "wip", "not_claimed": True,
    "functions": [], "bounds": "", "outside": "", "assumptions": COMMON_ASSUME, "trusted_base": [],
    "harnesses": [H(e["name"], e["tier"], 900) for e in _cat["c05"]],
}

PROPS["C07"] = {
    "level": "model_checking", "level_text": "wip", "level_note": "wip", "not_claimed": True,
    "functions": [], "bounds": "", "outside": "", "assumptions": COMMON_ASSUME, "trusted_base": [],
    "harnesses": [H("c07::" + n, "quick", 1500) for n in ["c07_any_stream_no_storage_6", "c07_two_messages_any_schedule", "c07_truncated_tail_any_schedule", "c07_read_message_equals_slice_parse"]],
}

PROPS["C15"] = {
    "level": "model_checking", "level_text": "wip", "level_note": "wip", "not_claimed": True,
    "functions": [], "bounds": "", "outside": "", "assumptions": COMMON_ASSUME, "trusted_base": [],
    "harnesses": [H("c15::" + n, "quick", 900) for n in ["c15_new_nonverbose_noext", "c15_new_nonverbose_ext_be", "c15_new_control", "c15_new_verbose_two_args",
                  "c15_new_verbose_string", "c15_new_nettrace_le", "c15_new_nettrace_be", "c15_valid_rejects_mismatched_values"]],
}

PROPS["C16"] = {
    "level": "model_checking", "level_text": "wip", "level_note": "wip", "not_claimed": True,
    "functions": [], "bounds": "", "outside": "", "assumptions": COMMON_ASSUME, "trusted_base": [],
    "harnesses": [H("c16::" + n, "quick", 900) for n in ["c16_bool_tyle_1", "c16_bool_tyle_15", "c16_u32_reserved_bits", "c16_raw_fixp_flag", "c16_id_bytes_after_nul"]],
}

PROPS["C10"] = {
    "level": "model_checking", "level_text": "wip", "level_note": "wip", "not_claimed": True,
    "functions": [], "bounds": "", "outside": "", "assumptions": COMMON_ASSUME, "trusted_base": [],
    "harnesses": [H("c10::" + n, "quick", 900) for n in ["c10_level_distribution_new_buckets", "c10_level_distribution_merge_is_sum", "c10_merge_34", "c10_merge_12", "c10_merge_11",
                  "c10_merge_03", "c10_merge_30", "c10_merge_24", "c10_merge_41", "c10_merge_00", "c10_merge_tables_independent", "c10_merge_three_parts_associative",
                  "c10_scan_visits_each_message_once"]],
}

PROPS["C03"] = {
    "level": "model_checking", "level_text": "wip", "level_note": "wip", "not_claimed": True,
    "functions": [], "bounds": "", "outside": "", "assumptions": COMMON_ASSUME, "trusted_base": [],
    "harnesses": [H("c03::" + n, "quick", 1200, mem_checks=True) for n in ["c03_skip_storage_header_any_bytes", "c03_consume_msg_any_header_bytes", "c03_corrupt_verbose_u16_htyp",
                  "c03_corrupt_verbose_u16_len", "c03_corrupt_verbose_u16_msin_noar", "c03_corrupt_verbose_u16_ids", "c03_corrupt_verbose_u16_typeinfo"]]
                 + [H("c02w::c02w_message_whole_nonverbose_min", "quick", 1200), H("c03::c03_len_arith_long_name", "quick", 1200, mem_checks=True)],
}

PROPS["C08"] = {
    "level": "model_checking", "level_text": "wip", "level_note": "wip", "not_claimed": True,
    "functions": [], "bounds": "", "outside": "", "assumptions": COMMON_ASSUME, "trusted_base": [],
    "harnesses": [H("c08::" + n, "quick", 1500) for n in ["c08_two_messages_any_schedule", "c08_any_stream_same_as_blocking_6"]],
}

