"""Registry of checks: per property the harnesses (Kani) and SMT obligations,
their tier, resource caps and what they decide. Read by run.py."""


def H(name, tier="quick", timeout=600, what="", **kw):
    d = {"name": name, "tier": tier, "timeout": timeout, "what": what}
    d.update(kw)
    return d


COMMON_ASSUME = [
    "allocation never fails (Kani default); single-threaded execution",
    "log crate disabled (max_level Off): trace!/warn! arguments are never evaluated",
    "dev-profile semantics (overflow checks on) is what Kani models; release behaviour is observed only in replays",
]
STUB_FMT = "std::fmt::format is stubbed to return an empty String: error messages are not compared, error classes are"
STUB_UTF8 = ("core::str::from_utf8 is replaced by a byte-wise validator with the same contract (models.rs); the model is itself "
             "checked against std for every input of up to 4 bytes (c19::c19_utf8_model_vs_std)")

PROPS = {}

PROPS["C14"] = {
    "level": "model_checking",
    "level_text": "Bounded model checking that is complete for the three code domains: every one of the 2^32 type-info words, 2^8 MSIN bytes and "
                  "2^8 HTYP bytes is covered by a solver query over the compiled conversion functions, compared with a bit-layout oracle "
                  "written from the PRS tables. Exhaustive where tests sample.",
    "level_note": "Trusts Kani's MIR->goto translation, CBMC/CaDiCaL, the oracle's reading of the bit tables; fmt::format and from_utf8 stubbed "
                  "(messages / UTF-8 validation are not the subject); STRU and reserved bits treated as format-unused.",
    "exhaustive": True,
    "functions": ["TypeInfo::try_from(u32)", "TypeInfo::as_bytes::<BE|LE>", "MessageType::try_from(u8)", "u8::from(&MessageType)",
                  "parse::dlt_extended_header", "ExtendedHeader::as_bytes", "StandardHeader::header_type_byte", "parse::dlt_standard_header",
                  "dlt::calculate_standard_header_length", "dlt::calculate_all_headers_length", "StandardHeader::overall_length"],
    "bounds": "complete domains: all 2^32 type-info words, all 2^8 MSIN bytes, all 2^8 HTYP bytes (16 fully symbolic header bytes); "
              "ids in the extended-header harness are fixed 4-byte ASCII",
    "outside": "nothing inside the three code domains; id contents are C19's subject",
    "assumptions": COMMON_ASSUME + [STUB_FMT, STUB_UTF8,
                                    "STRU (bit 14) and reserved bits 18..31 are treated as format-unused: the crate's TypeInfo does not model them"],
    "trusted_base": ["reading of the PRS type-info / MSIN / HTYP bit tables in c14.rs"],
    "harnesses": [
        H("c14::c14_typeinfo_all_words", timeout=300, what="all 2^32 type-info words: accept/reject predicate, decoded description, re-encode, byte-reversal"),
        H("c14::c14_msin_all_bytes", timeout=120, what="all 256 MSIN bytes through MessageType conversions"),
        H("c14::c14_msin_via_extended_header_parse", timeout=300, what="all 256 MSIN x 256 NOAR through dlt_extended_header"),
        H("c14::c14_msin_via_extended_header_write", timeout=300, what="all 256 MSIN x 256 NOAR through ExtendedHeader::as_bytes"),
        H("c14::c14_htyp_compose", timeout=120, what="header_type_byte / header-length helpers for all flag combinations and versions"),
        H("c14::c14_htyp_via_standard_header", timeout=600, what="16 fully symbolic bytes through dlt_standard_header: flags, version, LEN, re-encode"),
    ],
}

PROPS["C19"] = {
    "level": "model_checking",
    "level_text": "Bounded model checking of dlt_zero_terminated_string for every buffer of up to 6 bytes (contents and length symbolic) and every "
                  "size 0..65535 against an independent oracle (first NUL, longest valid UTF-8 prefix, exact consumption, hint <= shortfall); run "
                  "with std's real UTF-8 validator and with a byte-wise model that is itself checked against std.",
    "level_note": "Bound: 6-byte buffers. Trusts Kani/CBMC; fmt::format stubbed. Ids inside whole messages are covered by the header harnesses of C02/C14.",
    "functions": ["parse::dlt_zero_terminated_string", "parse::dlt_zero_terminated_string_intern"],
    "bounds": "buffers of 0..6 fully symbolic bytes (symbolic length), size symbolic over 0..65535",
    "outside": "buffers longer than 6 bytes (the function keeps no state across bytes other than 'seen NUL' and the UTF-8 automaton, "
               "whose longest sequence is 4 bytes)",
    "assumptions": COMMON_ASSUME + [STUB_FMT, STUB_UTF8 + " (one harness runs with std's real validator instead)"],
    "trusted_base": ["std's UTF-8 validator (real in c19_zstring_std_utf8)"],
    "harnesses": [
        H("c19::c19_zstring_model_utf8", timeout=300, what="oracle comparison with the UTF-8 model"),
        H("c19::c19_zstring_std_utf8", timeout=900, what="same with std's from_utf8"),
        H("c19::c19_utf8_model_vs_std", timeout=600, what="UTF-8 model == std::str::from_utf8 for all inputs up to 4 bytes"),
    ],
}

PROPS["C17"] = {
    "level": "model_checking",
    "engine": "mir-smt",
    "technique": "MIR -> SMT-LIB translation of the real functions; negated property decided by cvc5 (bit-vectors as integers) and z3 (integer encoding with explicit wrap-around); models replayed natively",
    "level_text": "The two kernels are loop-free, so the SMT queries cover every u64 input admitted by the property's precondition (no bound). "
                  "Each obligation (no overflow/division panic, microseconds < 10^6, seconds*10^6+microseconds == input) is decided on two independent "
                  "encodings by two solvers that must agree; the translator is validated against the native function on every run.",
    "level_note": "Trusts the nightly MIR dump, the 250-line translator (validated on 20 concrete inputs per kernel per run), cvc5 and z3. MIR is the "
                  "overflow-checks=on (dev) body; release is observed in replays.",
    "exhaustive": True,
    "functions": ["DltTimeStamp::from_ms", "DltTimeStamp::from_us"],
    "bounds": "all u64 inputs with input / unit-per-second < 2^32 (the property's own precondition); no other bound: the kernels are loop-free",
    "outside": "inputs whose whole seconds do not fit 32 bits (excluded by the property itself)",
    "assumptions": ["MIR semantics of Div/Rem/IntToInt/MulWithOverflow/assert as encoded in smt/mir2smt.py (validated on every run against the "
                    "native function on boundary and seeded inputs)", "overflow-checks=on MIR (dev profile); release behaviour observed in replays"],
    "trusted_base": ["rustc nightly MIR dump", "smt/mir2smt.py", "cvc5 1.0 (int-blasting), z3 4.8.12"],
    "smt": [
        {"name": "from_ms", "suffix": "::from_ms(", "unit_per_sec": 1000},
        {"name": "from_us", "suffix": "::from_us(", "unit_per_sec": 1000000},
    ],
    "harnesses": [],
}


NOT_APPLICABLE = [
    {"property_id": "C11", "reason": "quantifies over XML documents on disk parsed by quick-xml into HashMaps; no unit carrying the property is within reach of bounded symbolic execution (DESIGN.md C11)"},
]
