//! C04 — a successful parse consumes exactly the declared message and makes
//! progress; C09 integration (filtered-out marker carries the payload length,
//! the filter never changes where the next message is looked for).
use crate::c01::*;
use crate::c09::random_state_stub;
use crate::refcodec::*;
use crate::shapes::*;
use dlt_core::dlt::*;
use dlt_core::filtering::ProcessedDltFilterConfig;
use dlt_core::parse::{dlt_consume_msg, dlt_message, DltParseError, ParsedMessage};
use dlt_core::filtering::verif_hooks::HashSet; // vector-backed model of the id sets (DESIGN.md 9.7)

#[derive(Clone, Copy, PartialEq)]
pub enum FilterMode {
    NoFilter,
    AllNone,
    DropAll, // app_ids = Some(empty set), counts force dropping messages without extended header too
    LevelFatal,
}

pub fn make_filter(m: FilterMode) -> Option<ProcessedDltFilterConfig> {
    match m {
        FilterMode::NoFilter => None,
        FilterMode::AllNone => Some(ProcessedDltFilterConfig { min_log_level: None, app_ids: None, ecu_ids: None, context_ids: None, app_id_count: 0, context_id_count: 0 }),
        FilterMode::DropAll => Some(ProcessedDltFilterConfig { min_log_level: None, app_ids: Some(HashSet::new()), ecu_ids: None, context_ids: None, app_id_count: 1, context_id_count: 0 }),
        FilterMode::LevelFatal => Some(ProcessedDltFilterConfig { min_log_level: Some(LogLevel::Fatal), app_ids: None, ecu_ids: None, context_ids: None, app_id_count: 0, context_id_count: 0 }),
    }
}

/// Verdict of the reference decoder for the bytes (computed by the catalogue
/// generator from the layout: declared length vs headers, buffer and payload size).
pub const EXP_ITEM: u8 = 0;
pub const EXP_FILTERED: u8 = 1;
pub const EXP_INCOMPLETE: u8 = 2;
pub const EXP_REJECT: u8 = 3;
/// Leftover bytes inside a declared verbose payload (declared length larger than the arguments need): the layout
/// description leaves the verdict open, so both "message" and "rejected" agree with the reference (DESIGN.md section 3);
/// what C04 demands in the first case - the remainder starts at the declared end - is asserted all the same.
pub const EXP_ITEM_OR_REJECT: u8 = 4;

/// For one declared length `len_field`: the parser's verdict is the reference
/// verdict `expect`; whenever it returns Ok, the remainder is the strict suffix
/// starting at msg_start + len_field, and a filtered-out marker carries
/// len_field - headers.
pub fn consumption_one(s: &Shape, tail: usize, len_field: u16, fm: FilterMode, expect: u8) {
    let bt = build(s, tail, Some(len_field), None);
    let input = bt.buf.slice();
    let filter = make_filter(fm);
    let r = dlt_message(input, filter.as_ref(), s.storage);
    let end = bt.msg_start + len_field as usize;
    match &r {
        Ok((rest, pm)) => {
            assert!(rest.len() < input.len(), "no progress");
            assert!(end <= input.len(), "success although the declared length exceeds the buffer");
            assert!(rest.as_ptr() as usize == input.as_ptr() as usize + end, "remainder does not start where the declared length ends");
            assert!(rest.len() == input.len() - end, "remainder length");
            match pm {
                ParsedMessage::FilteredOut(n) => {
                    assert!(expect == EXP_FILTERED, "filtered out although the reference keeps / refuses the message");
                    assert!(*n == len_field as usize - headers_len(s.htyp), "filtered-out marker does not carry the payload length");
                }
                ParsedMessage::Item(m) => {
                    assert!(expect == EXP_ITEM || expect == EXP_ITEM_OR_REJECT, "message returned where the reference filters / refuses / waits");
                    assert!(m.header.payload_length as usize == len_field as usize - headers_len(s.htyp));
                }
                ParsedMessage::Invalid => assert!(false, "Invalid marker with a remainder"),
            }
        }
        Err(DltParseError::IncompleteParse { needed }) => {
            assert!(expect == EXP_INCOMPLETE, "incomplete although the reference has a verdict for the complete declared message");
            if let Some(n) = needed {
                assert!(n.get() >= 1 && n.get() <= end - input.len(), "hint exceeds the missing bytes");
            }
        }
        Err(_) => {
            assert!(expect == EXP_REJECT || expect == EXP_ITEM_OR_REJECT, "rejected where the reference accepts or waits for more data");
        }
    }
    kani::cover!(true, "call returned");
    std::mem::forget(r);
    std::mem::forget(filter);
}

/// dlt_consume_msg on the same bytes: consumed == 16 + LEN, remainder aligned.
pub fn skipper_one(s: &Shape, tail: usize, len_field: u16) {
    let bt = build(s, tail, Some(len_field), None);
    let input = bt.buf.slice();
    let c = dlt_consume_msg(input);
    match &c {
        Ok((rest, Some(consumed))) => {
            let consumed = *consumed;
            assert!(consumed == 16 + len_field as u64, "consumed count is not storage header + declared length");
            assert!(rest.len() == input.len() - consumed as usize);
            assert!(rest.as_ptr() as usize == input.as_ptr() as usize + consumed as usize);
            assert!(rest.len() < input.len());
            kani::cover!(true, "skipped a message");
        }
        Ok((_, None)) => assert!(false, "no message reported on non-empty input"),
        Err(_) => {
            // only when the declared message does not fit or LEN < headers
            assert!(16 + len_field as usize > input.len() || (len_field as usize) < headers_len(s.htyp), "skipper refused a complete message");
        }
    }
    std::mem::forget(c);
}

// parser harnesses: gen_c04.rs (generated: one shape x filter mode x declared length per harness)

const S_NV_EXT_ST: Shape = Shape { storage: true, htyp: H_ALL_BE, msin: M_LOG_WARN_NV, ids: IDS_SHORT, payload: P::NonVerbose(1) };
const S_V_STR_ST: Shape = Shape { storage: true, htyp: H_EXT_BE, msin: M_LOG_INFO_V, ids: IDS_FULL, payload: P::Verbose(&[arg(AK::Str)]) };

#[kani::proof]
#[kani::unwind(24)]
#[kani::stub(std::fmt::format, crate::models::fmt_format_stub)]
#[kani::stub(core::str::from_utf8, crate::models::from_utf8_stub)]
fn c04_skipper_storage_shapes() {
    let exact = (headers_len(S_NV_EXT_ST.htyp) + payload_size(&S_NV_EXT_ST.payload)) as u16;
    skipper_one(&S_NV_EXT_ST, 3, exact);
    skipper_one(&S_NV_EXT_ST, 3, exact + 2);
    skipper_one(&S_NV_EXT_ST, 3, exact - 1);
    skipper_one(&S_NV_EXT_ST, 3, exact + 4);
    let exact = (headers_len(S_V_STR_ST.htyp) + payload_size(&S_V_STR_ST.payload)) as u16;
    skipper_one(&S_V_STR_ST, 2, exact);
    skipper_one(&S_V_STR_ST, 2, exact - 3);
    skipper_one(&S_V_STR_ST, 2, exact + 1);
}

/// validated_payload_length for every header and every remaining-bytes count:
/// Ok(LEN - headers) iff headers <= LEN <= remaining; the shortfall is exact.
#[kani::proof]
fn c04_validated_payload_length_all() {
    let htyp: u8 = kani::any();
    let payload_length: u16 = kani::any();
    let hl = headers_len(htyp) as u16;
    kani::assume(payload_length <= u16::MAX - hl);
    let h = StandardHeader {
        version: htyp >> 5,
        endianness: if htyp & HTYP_MSBF != 0 { Endianness::Big } else { Endianness::Little },
        has_extended_header: htyp & HTYP_UEH != 0,
        message_counter: 0,
        ecu_id: if htyp & HTYP_WEID != 0 { Some(String::new()) } else { None },
        session_id: if htyp & HTYP_WSID != 0 { Some(0) } else { None },
        timestamp: if htyp & HTYP_WTMS != 0 { Some(0) } else { None },
        payload_length,
    };
    let remaining: usize = kani::any();
    let total = hl as usize + payload_length as usize;
    match dlt_core::parse::verif_hooks::validated_payload_length(&h, remaining) {
        Ok(n) => {
            assert!(n == payload_length && total <= remaining);
            kani::cover!(total == remaining, "exactly enough bytes");
        }
        Err(DltParseError::IncompleteParse { needed }) => {
            assert!(total > remaining);
            assert!(needed.map(|n| n.get()) == Some(total - remaining), "shortfall is not exact");
            kani::cover!(total == remaining + 1, "one byte short");
        }
        Err(_) => assert!(false),
    }
    std::mem::forget(h);
}
