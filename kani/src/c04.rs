//! C04 — a successful parse consumes exactly the declared message and makes
//! progress; C09 integration (filtered-out marker carries the payload length,
//! the filter never changes where the next message is looked for).
use crate::c01::*;
use crate::c09::random_state_stub;
use crate::refcodec::*;
use crate::shapes::*;
use dlt_core::dlt::*;
use dlt_core::filtering::ProcessedDltFilterConfig;
use dlt_core::parse::{dlt_consume_msg, dlt_message, DltParseError, ParsedMessage};
use std::collections::HashSet;

#[derive(Clone, Copy, PartialEq)]
pub enum FilterMode {
    NoFilter,
    AllNone,
    DropAll, // app_ids = Some(empty set), counts force dropping messages without extended header too
    LevelFatal,
}

fn make_filter(m: FilterMode) -> Option<ProcessedDltFilterConfig> {
    match m {
        FilterMode::NoFilter => None,
        FilterMode::AllNone => Some(ProcessedDltFilterConfig { min_log_level: None, app_ids: None, ecu_ids: None, context_ids: None, app_id_count: 0, context_id_count: 0 }),
        FilterMode::DropAll => Some(ProcessedDltFilterConfig { min_log_level: None, app_ids: Some(HashSet::new()), ecu_ids: None, context_ids: None, app_id_count: 1, context_id_count: 0 }),
        FilterMode::LevelFatal => Some(ProcessedDltFilterConfig { min_log_level: Some(LogLevel::Fatal), app_ids: None, ecu_ids: None, context_ids: None, app_id_count: 0, context_id_count: 0 }),
    }
}

/// For one declared length `len_field`: whenever the parser returns Ok, the
/// remainder is the strict suffix starting at msg_start + len_field, and a
/// filtered-out marker carries len_field - headers.
pub fn consumption_one(s: &Shape, tail: usize, len_field: u16, fm: FilterMode, expect_ok: Option<bool>) {
    let bt = build(s, tail, Some(len_field), None);
    let input = bt.buf.slice();
    let filter = make_filter(fm);
    let r = dlt_message(input, filter.as_ref(), s.storage);
    let end = bt.msg_start + len_field as usize;
    match r {
        Ok((rest, pm)) => {
            assert!(rest.len() < input.len(), "no progress");
            assert!(end <= input.len(), "success although the declared length exceeds the buffer");
            assert!(rest.as_ptr() as usize == input.as_ptr() as usize + end, "remainder does not start where the declared length ends");
            assert!(rest.len() == input.len() - end, "remainder length");
            match pm {
                ParsedMessage::FilteredOut(n) => {
                    assert!(fm != FilterMode::NoFilter && fm != FilterMode::AllNone, "filtered without criteria");
                    assert!(n == len_field as usize - headers_len(s.htyp), "filtered-out marker does not carry the payload length");
                    kani::cover!(true, "filtered out");
                }
                ParsedMessage::Item(m) => {
                    assert!(m.header.payload_length as usize == len_field as usize - headers_len(s.htyp));
                    kani::cover!(true, "message returned");
                    std::mem::forget(m);
                }
                ParsedMessage::Invalid => assert!(false, "Invalid marker with a remainder"),
            }
            if let Some(e) = expect_ok {
                assert!(e, "parser succeeded where the reference does not");
            }
        }
        Err(DltParseError::IncompleteParse { needed }) => {
            if let Some(n) = needed {
                assert!(n.get() >= 1);
            }
            if end <= input.len() && len_field as usize >= headers_len(s.htyp) {
                // whole declared message is in the buffer: 'incomplete' would make a streaming caller wait forever
                assert!(false, "incomplete although the declared message is completely in the buffer");
            }
            if let Some(e) = expect_ok {
                assert!(!e, "parser reports incomplete where the reference accepts");
            }
        }
        Err(_) => {
            if let Some(e) = expect_ok {
                assert!(!e, "parser rejects where the reference accepts");
            }
        }
    }
    std::mem::forget(filter);
}

/// dlt_consume_msg on the same bytes: consumed == 16 + LEN, remainder aligned.
pub fn skipper_one(s: &Shape, tail: usize, len_field: u16) {
    let bt = build(s, tail, Some(len_field), None);
    let input = bt.buf.slice();
    match dlt_consume_msg(input) {
        Ok((rest, Some(consumed))) => {
            assert!(consumed == 16 + len_field as u64, "consumed count is not storage header + declared length");
            assert!(rest.len() == input.len() - consumed as usize);
            assert!(rest.as_ptr() as usize == input.as_ptr() as usize + consumed as usize);
            assert!(rest.len() < input.len());
            kani::cover!(true, "skipped a message");
        }
        Ok((_, None)) => assert!(false, "no message reported on non-empty input"),
        Err(_) => {
            // only when the declared message does not fit or LEN < headers
            assert!(16 + len_field as usize > input.len() || (len_field as usize) < headers_len(s.htyp), "skipper refused a complete message");
        }
    }
}

macro_rules! c04_harness {
    ($name:ident, $uw:expr, $shape:expr, $tail:expr, $fm:expr, [$($delta:expr),*]) => {
        #[kani::proof]
        #[kani::unwind($uw)]
        #[kani::stub(std::fmt::format, crate::models::fmt_format_stub)]
        #[kani::stub(core::str::from_utf8, crate::models::from_utf8_stub)]
        #[kani::stub(std::hash::RandomState::new, random_state_stub)]
        #[kani::stub(dlt_core::parse::forward_to_next_storage_header, crate::models::forward_stub)]
        fn $name() {
            let s: Shape = $shape;
            let exact = (headers_len(s.htyp) + payload_size(&s.payload)) as i32;
            $( { let l = exact + $delta; if l >= 0 { consumption_one(&s, $tail, l as u16, $fm, None); } } )*
        }
    };
}

const S_NV_MIN: Shape = Shape { storage: false, htyp: H_MIN, msin: 0, ids: IDS_FULL, payload: P::NonVerbose(2) };
const S_NV_EXT_ST: Shape = Shape { storage: true, htyp: H_ALL_BE, msin: M_LOG_WARN_NV, ids: IDS_SHORT, payload: P::NonVerbose(1) };
const S_CTRL: Shape = Shape { storage: false, htyp: H_EXT_LE, msin: M_CTRL_REQ, ids: IDS_FULL, payload: P::Control(2) };
const S_V_BOOL: Shape = Shape { storage: false, htyp: H_EXT_LE, msin: M_LOG_INFO_V, ids: IDS_FULL, payload: P::Verbose(&[arg(AK::Bool)]) };
const S_V_STR_ST: Shape = Shape { storage: true, htyp: H_EXT_BE, msin: M_LOG_INFO_V, ids: IDS_FULL, payload: P::Verbose(&[arg(AK::Str)]) };
const S_NW: Shape = Shape { storage: false, htyp: H_EXT_LE, msin: M_NW_CAN_V, ids: IDS_FULL, payload: P::NetTrace(&[2]) };

// exact length, shorter, longer (inside the tail), beyond the buffer, below the headers
c04_harness!(c04_nonverbose_min_nofilter, 20, S_NV_MIN, 3, FilterMode::NoFilter, [0, -1, -2, 1, 3, 4, -6, -7]);
c04_harness!(c04_nonverbose_ext_storage_nofilter, 24, S_NV_EXT_ST, 3, FilterMode::NoFilter, [0, -1, 2, 3, 4]);
c04_harness!(c04_nonverbose_ext_storage_dropall, 24, S_NV_EXT_ST, 3, FilterMode::DropAll, [0, -1, 2, 3, 4]);
c04_harness!(c04_nonverbose_min_dropall, 20, S_NV_MIN, 3, FilterMode::DropAll, [0, -1, 2, 4]);
c04_harness!(c04_control_nofilter, 20, S_CTRL, 3, FilterMode::NoFilter, [0, -1, -2, -3, 1, 3, 4]);
c04_harness!(c04_control_allnone, 20, S_CTRL, 3, FilterMode::AllNone, [0, 2]);
c04_harness!(c04_verbose_bool_nofilter, 20, S_V_BOOL, 3, FilterMode::NoFilter, [0, -1, 1, 3, 4]);
c04_harness!(c04_verbose_bool_level, 20, S_V_BOOL, 3, FilterMode::LevelFatal, [0, -1, 1, 3, 4]);
c04_harness!(c04_verbose_string_storage_nofilter, 24, S_V_STR_ST, 3, FilterMode::NoFilter, [0, -1, -3, 2, 4]);
c04_harness!(c04_nettrace_nofilter, 20, S_NW, 3, FilterMode::NoFilter, [0, -1, 2, 4]);

#[kani::proof]
#[kani::unwind(24)]
#[kani::stub(std::fmt::format, crate::models::fmt_format_stub)]
#[kani::stub(core::str::from_utf8, crate::models::from_utf8_stub)]
fn c04_skipper_storage_shapes() {
    let exact = (headers_len(S_NV_EXT_ST.htyp) + payload_size(&S_NV_EXT_ST.payload)) as u16;
    skipper_one(&S_NV_EXT_ST, 3, exact);
    skipper_one(&S_NV_EXT_ST, 3, exact + 2);
    skipper_one(&S_NV_EXT_ST, 3, exact - 1);
    skipper_one(&S_NV_EXT_ST, 3, exact + 4);
    let exact = (headers_len(S_V_STR_ST.htyp) + payload_size(&S_V_STR_ST.payload)) as u16;
    skipper_one(&S_V_STR_ST, 2, exact);
    skipper_one(&S_V_STR_ST, 2, exact - 3);
    skipper_one(&S_V_STR_ST, 2, exact + 1);
}

/// validated_payload_length for every header and every remaining-bytes count:
/// Ok(LEN - headers) iff headers <= LEN <= remaining; the shortfall is exact.
#[kani::proof]
fn c04_validated_payload_length_all() {
    let htyp: u8 = kani::any();
    let payload_length: u16 = kani::any();
    let hl = headers_len(htyp) as u16;
    kani::assume(payload_length <= u16::MAX - hl);
    let h = StandardHeader {
        version: htyp >> 5,
        endianness: if htyp & HTYP_MSBF != 0 { Endianness::Big } else { Endianness::Little },
        has_extended_header: htyp & HTYP_UEH != 0,
        message_counter: 0,
        ecu_id: if htyp & HTYP_WEID != 0 { Some(String::new()) } else { None },
        session_id: if htyp & HTYP_WSID != 0 { Some(0) } else { None },
        timestamp: if htyp & HTYP_WTMS != 0 { Some(0) } else { None },
        payload_length,
    };
    let remaining: usize = kani::any();
    let total = hl as usize + payload_length as usize;
    match dlt_core::parse::verif_hooks::validated_payload_length(&h, remaining) {
        Ok(n) => {
            assert!(n == payload_length && total <= remaining);
            kani::cover!(total == remaining, "exactly enough bytes");
        }
        Err(DltParseError::IncompleteParse { needed }) => {
            assert!(total > remaining);
            assert!(needed.map(|n| n.get()) == Some(total - remaining), "shortfall is not exact");
            kani::cover!(total == remaining + 1, "one byte short");
        }
        Err(_) => assert!(false),
    }
    std::mem::forget(h);
}
