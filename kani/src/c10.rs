//! C10 — statistics count every message once per id and merge like a sum.
//!
//! Decidable here: bucket selection (LevelDistribution::new), counter merge,
//! StatisticInfo::merge as a commutative/associative sum of maps, and the
//! header-only scan loop of collect_statistics with a recording collector.
//! NOT decidable here: the standard collector's id tables are FxHashMaps, and
//! symbolic execution of hashbrown did not finish even for one concrete insert +
//! lookup (15 min probe); see DESIGN.md §C10.
use dlt_core::dlt::*;
use dlt_core::parse::DltParseError;
use dlt_core::read::DltMessageReader;
use dlt_core::statistics::common::{LevelDistribution, StatisticInfo};
use dlt_core::statistics::{collect_statistics, Statistic, StatisticCollector};

fn any_opt_level() -> Option<LogLevel> {
    match kani::any::<u8>() % 8 {
        0 => None,
        1 => Some(LogLevel::Fatal),
        2 => Some(LogLevel::Error),
        3 => Some(LogLevel::Warn),
        4 => Some(LogLevel::Info),
        5 => Some(LogLevel::Debug),
        6 => Some(LogLevel::Verbose),
        _ => Some(LogLevel::Invalid(kani::any())),
    }
}

fn as_array(d: &LevelDistribution) -> [usize; 8] {
    [d.non_log, d.log_fatal, d.log_error, d.log_warning, d.log_info, d.log_debug, d.log_verbose, d.log_invalid]
}

fn bucket(l: &Option<LogLevel>) -> usize {
    match l {
        None => 0,
        Some(LogLevel::Fatal) => 1,
        Some(LogLevel::Error) => 2,
        Some(LogLevel::Warn) => 3,
        Some(LogLevel::Info) => 4,
        Some(LogLevel::Debug) => 5,
        Some(LogLevel::Verbose) => 6,
        Some(LogLevel::Invalid(_)) => 7,
    }
}

/// The first message of an id lands in exactly the bucket of its level.
#[kani::proof]
fn c10_level_distribution_new_buckets() {
    let l = any_opt_level();
    let d = LevelDistribution::new(l);
    let a = as_array(&d);
    let b = bucket(&l);
    let mut i = 0;
    while i < 8 {
        assert!(a[i] == if i == b { 1 } else { 0 }, "bucket selection");
        i += 1;
    }
    kani::cover!(b == 7, "invalid level");
    kani::cover!(b == 0, "non-log");
}

fn any_dist() -> LevelDistribution {
    let mut d = LevelDistribution::default();
    let c: [u32; 8] = kani::any();
    d.non_log = c[0] as usize;
    d.log_fatal = c[1] as usize;
    d.log_error = c[2] as usize;
    d.log_warning = c[3] as usize;
    d.log_info = c[4] as usize;
    d.log_debug = c[5] as usize;
    d.log_verbose = c[6] as usize;
    d.log_invalid = c[7] as usize;
    d
}

/// Counter merge is the field-wise sum.
#[kani::proof]
fn c10_level_distribution_merge_is_sum() {
    let a = any_dist();
    let b = any_dist();
    let mut m = a.clone();
    m.merge(&b);
    let (x, y, z) = (as_array(&a), as_array(&b), as_array(&m));
    let mut i = 0;
    while i < 8 {
        assert!(z[i] == x[i] + y[i], "merge is not the sum");
        i += 1;
    }
    kani::cover!(z[7] > 0);
}

const IDS: [&str; 2] = ["A1", "B2"];

/// A part's table: 0, 1 or 2 entries with distinct ids in either order
/// (shape `sh` is enumerated concretely), symbolic counters.
fn table(sh: u8) -> Vec<(String, LevelDistribution)> {
    let mut v = Vec::with_capacity(2);
    match sh {
        0 => {}
        1 => v.push((String::from(IDS[0]), any_dist())),
        2 => v.push((String::from(IDS[1]), any_dist())),
        3 => {
            v.push((String::from(IDS[0]), any_dist()));
            v.push((String::from(IDS[1]), any_dist()));
        }
        _ => {
            v.push((String::from(IDS[1]), any_dist()));
            v.push((String::from(IDS[0]), any_dist()));
        }
    }
    v
}

fn lookup(t: &Vec<(String, LevelDistribution)>, id: &str) -> [usize; 8] {
    let mut out = [0usize; 8];
    let mut hits = 0;
    let mut i = 0;
    while i < t.len() {
        if t[i].0.as_bytes() == id.as_bytes() {
            out = as_array(&t[i].1);
            hits += 1;
        }
        i += 1;
    }
    assert!(hits <= 1, "an id occurs twice in a merged table");
    out
}

fn part(sh: u8) -> StatisticInfo {
    let mut s = StatisticInfo::new();
    s.app_ids = table(sh);
    s.context_ids = table((sh + 2) % 5);
    s.ecu_ids = table((sh + 3) % 5);
    s.contained_non_verbose = kani::any();
    s
}

fn clone_info(s: &StatisticInfo) -> StatisticInfo {
    let mut c = StatisticInfo::new();
    c.app_ids = s.app_ids.clone();
    c.context_ids = s.context_ids.clone();
    c.ecu_ids = s.ecu_ids.clone();
    c.contained_non_verbose = s.contained_non_verbose;
    c
}

/// merge(a, b) == tally of the concatenation, == merge(b, a) as maps; the
/// non-verbose flag is the disjunction. Table shapes enumerated (5 x 5).
fn merge_two(sa: u8, sb: u8) {
    let a = part(sa);
    let b = part(sb);
    let mut ab = clone_info(&a);
    ab.merge(clone_info(&b));
    let mut ba = clone_info(&b);
    ba.merge(clone_info(&a));
    let mut k = 0;
    while k < 2 {
        let id = IDS[k];
        let (xa, xb) = (lookup(&a.app_ids, id), lookup(&b.app_ids, id));
        let (ya, yb) = (lookup(&a.context_ids, id), lookup(&b.context_ids, id));
        let (za, zb) = (lookup(&a.ecu_ids, id), lookup(&b.ecu_ids, id));
        let (m1, m2) = (lookup(&ab.app_ids, id), lookup(&ba.app_ids, id));
        let (n1, n2) = (lookup(&ab.context_ids, id), lookup(&ba.context_ids, id));
        let (o1, o2) = (lookup(&ab.ecu_ids, id), lookup(&ba.ecu_ids, id));
        let mut i = 0;
        while i < 8 {
            assert!(m1[i] == xa[i] + xb[i] && m2[i] == m1[i], "app-id table: merge is not the sum / not commutative");
            assert!(n1[i] == ya[i] + yb[i] && n2[i] == n1[i], "context-id table: merge is not the sum / not commutative");
            assert!(o1[i] == za[i] + zb[i] && o2[i] == o1[i], "ecu-id table: merge is not the sum / not commutative");
            i += 1;
        }
        k += 1;
    }
    assert!(ab.contained_non_verbose == (a.contained_non_verbose || b.contained_non_verbose));
    assert!(ba.contained_non_verbose == ab.contained_non_verbose);
    assert!(ab.app_ids.len() <= 2 && ab.context_ids.len() <= 2 && ab.ecu_ids.len() <= 2, "merged table has spurious entries");
    std::mem::forget(a);
    std::mem::forget(b);
    std::mem::forget(ab);
    std::mem::forget(ba);
}

macro_rules! c10_merge {
    ($name:ident, $sa:expr, [$($sb:expr),*]) => {
        #[kani::proof]
        #[kani::unwind(6)]
        fn $name() {
            $( merge_two($sa, $sb); )*
            kani::cover!(true);
        }
    };
}
c10_merge!(c10_merge_two_parts_a0, 0, [0, 1, 2, 3, 4]);
c10_merge!(c10_merge_two_parts_a1, 1, [0, 1, 2, 3, 4]);
c10_merge!(c10_merge_two_parts_a2, 2, [0, 1, 2, 3, 4]);
c10_merge!(c10_merge_two_parts_a3, 3, [0, 1, 2, 3, 4]);
c10_merge!(c10_merge_two_parts_a4, 4, [0, 1, 2, 3, 4]);

/// Associativity on three parts: (a+b)+c == a+(b+c) as maps (one table).
#[kani::proof]
#[kani::unwind(6)]
fn c10_merge_three_parts_associative() {
    let mut sa = 1u8;
    while sa <= 4 {
        let a = part(sa);
        let b = part(4);
        let c = part(3);
        let mut l = clone_info(&a);
        l.merge(clone_info(&b));
        l.merge(clone_info(&c));
        let mut bc = clone_info(&b);
        bc.merge(clone_info(&c));
        let mut r = clone_info(&a);
        r.merge(bc);
        let mut k = 0;
        while k < 2 {
            let id = IDS[k];
            let (x, y) = (lookup(&l.app_ids, id), lookup(&r.app_ids, id));
            let (p, q) = (lookup(&l.ecu_ids, id), lookup(&r.ecu_ids, id));
            let mut i = 0;
            while i < 8 {
                assert!(x[i] == y[i] && p[i] == q[i], "merge is not associative");
                i += 1;
            }
            k += 1;
        }
        assert!(l.contained_non_verbose == r.contained_non_verbose);
        std::mem::forget(a);
        std::mem::forget(b);
        std::mem::forget(c);
        std::mem::forget(l);
        std::mem::forget(r);
        sa += 3;
    }
    kani::cover!(true);
}

// ---- scan loop ------------------------------------------------------------
struct Recorder {
    n: usize,
    mcnt: [u8; 3],
    has_ext: [bool; 3],
    level_bucket: [usize; 3],
    verbose: [bool; 3],
    ecu_present: [bool; 3],
    payload_len: [usize; 3],
}

impl StatisticCollector for Recorder {
    fn collect_statistic(&mut self, s: Statistic) -> Result<(), DltParseError> {
        assert!(self.n < 3, "more visits than messages");
        let i = self.n;
        self.mcnt[i] = s.standard_header.message_counter;
        self.has_ext[i] = s.extended_header.is_some();
        self.level_bucket[i] = bucket(&s.log_level);
        self.verbose[i] = s.is_verbose;
        self.ecu_present[i] = s.standard_header.ecu_id.is_some();
        self.payload_len[i] = s.payload.len();
        self.n += 1;
        std::mem::forget(s);
        Ok(())
    }
}

/// Two literal-layout messages (one with extended header: verbose log message
/// with symbolic counter; one without), any read fragmentation: each message
/// is visited exactly once, in order, with its decoded headers.
#[kani::proof]
#[kani::unwind(16)]
#[kani::stub(std::fmt::format, crate::models::fmt_format_stub)]
#[kani::stub(core::str::from_utf8, crate::models::from_utf8_stub)]
fn c10_scan_visits_each_message_once() {
    let d: [u8; 6] = kani::any();
    // msg1: HTYP=0x21 (UEH), MCNT, LEN=15, MSIN=0x41 (verbose log info), NOAR=0, "AP\0\0", "C\0\0\0", 1 payload byte
    // msg2: HTYP=0x24 (WEID), MCNT, LEN=10, "EC\0\0", 2 payload bytes
    let data: [u8; 25] = [
        0x21, d[0], 0, 15, 0x41, 0, b'A', b'P', 0, 0, b'C', 0, 0, 0, d[1],
        0x24, d[2], 0, 10, b'E', b'C', 0, 0, d[3], d[4],
    ];
    let src = crate::c07::Src::<25> { data, len: 25, pos: 0, sched: kani::any(), step: 0, reads: 0 };
    let mut reader = DltMessageReader::with_capacity(16, 16, src, false);
    let mut rec = Recorder { n: 0, mcnt: [0; 3], has_ext: [false; 3], level_bucket: [9; 3], verbose: [false; 3], ecu_present: [false; 3], payload_len: [0; 3] };
    let r = collect_statistics(&mut reader, &mut rec);
    assert!(r.is_ok(), "scan failed on a well-formed stream");
    assert!(rec.n == 2, "not exactly one visit per message");
    assert!(rec.mcnt[0] == d[0] && rec.mcnt[1] == d[2], "visit order / header values");
    assert!(rec.has_ext[0] && !rec.has_ext[1]);
    assert!(rec.level_bucket[0] == 4 && rec.level_bucket[1] == 0, "log level of the visit");
    assert!(rec.verbose[0] && !rec.verbose[1]);
    assert!(!rec.ecu_present[0] && rec.ecu_present[1]);
    assert!(rec.payload_len[0] == 1 && rec.payload_len[1] == 2, "payload after all headers");
    kani::cover!(true);
    std::mem::forget(reader);
}
