//! C10 — statistics count every message once per id and merge like a sum.
//!
//! Decidable here: bucket selection (LevelDistribution::new), counter merge,
//! StatisticInfo::merge as a commutative/associative sum of maps, and the
//! header-only scan loop of collect_statistics with a recording collector.
//! NOT decidable here: the standard collector's id tables are FxHashMaps, and
//! symbolic execution of hashbrown did not finish even for one concrete insert +
//! lookup (15 min probe); see DESIGN.md §C10.
use dlt_core::dlt::*;
use dlt_core::parse::DltParseError;
use dlt_core::read::DltMessageReader;
use dlt_core::statistics::common::{LevelDistribution, StatisticInfo, StatisticInfoCollector};
use dlt_core::statistics::{collect_statistics, Statistic, StatisticCollector};

fn any_opt_level() -> Option<LogLevel> {
    match kani::any::<u8>() % 8 {
        0 => None,
        1 => Some(LogLevel::Fatal),
        2 => Some(LogLevel::Error),
        3 => Some(LogLevel::Warn),
        4 => Some(LogLevel::Info),
        5 => Some(LogLevel::Debug),
        6 => Some(LogLevel::Verbose),
        _ => Some(LogLevel::Invalid(kani::any())),
    }
}

fn as_array(d: &LevelDistribution) -> [usize; 8] {
    [d.non_log, d.log_fatal, d.log_error, d.log_warning, d.log_info, d.log_debug, d.log_verbose, d.log_invalid]
}

fn bucket(l: &Option<LogLevel>) -> usize {
    match l {
        None => 0,
        Some(LogLevel::Fatal) => 1,
        Some(LogLevel::Error) => 2,
        Some(LogLevel::Warn) => 3,
        Some(LogLevel::Info) => 4,
        Some(LogLevel::Debug) => 5,
        Some(LogLevel::Verbose) => 6,
        Some(LogLevel::Invalid(_)) => 7,
    }
}

/// The first message of an id lands in exactly the bucket of its level.
#[kani::proof]
fn c10_level_distribution_new_buckets() {
    let l = any_opt_level();
    let d = LevelDistribution::new(l);
    let a = as_array(&d);
    let b = bucket(&l);
    let mut i = 0;
    while i < 8 {
        assert!(a[i] == if i == b { 1 } else { 0 }, "bucket selection");
        i += 1;
    }
    kani::cover!(b == 7, "invalid level");
    kani::cover!(b == 0, "non-log");
}

fn any_dist() -> LevelDistribution {
    let mut d = LevelDistribution::default();
    let c: [u32; 8] = kani::any();
    d.non_log = c[0] as usize;
    d.log_fatal = c[1] as usize;
    d.log_error = c[2] as usize;
    d.log_warning = c[3] as usize;
    d.log_info = c[4] as usize;
    d.log_debug = c[5] as usize;
    d.log_verbose = c[6] as usize;
    d.log_invalid = c[7] as usize;
    d
}

/// Counter merge is the field-wise sum.
#[kani::proof]
fn c10_level_distribution_merge_is_sum() {
    let a = any_dist();
    let b = any_dist();
    let mut m = a.clone();
    m.merge(&b);
    let (x, y, z) = (as_array(&a), as_array(&b), as_array(&m));
    let mut i = 0;
    while i < 8 {
        assert!(z[i] == x[i] + y[i], "merge is not the sum");
        i += 1;
    }
    kani::cover!(z[7] > 0);
}

const IDS: [&str; 2] = ["A1", "B2"];

fn dist_from(c: &[u32; 8]) -> LevelDistribution {
    let mut d = LevelDistribution::default();
    d.non_log = c[0] as usize;
    d.log_fatal = c[1] as usize;
    d.log_error = c[2] as usize;
    d.log_warning = c[3] as usize;
    d.log_info = c[4] as usize;
    d.log_debug = c[5] as usize;
    d.log_verbose = c[6] as usize;
    d.log_invalid = c[7] as usize;
    d
}

/// A part's table: 0, 1 or 2 entries with distinct ids in either order
/// (shape `sh` is concrete), counters c[k] belong to id IDS[k].
fn table(sh: u8, c: &[[u32; 8]; 2]) -> Vec<(String, LevelDistribution)> {
    let mut v = Vec::with_capacity(2);
    match sh {
        0 => {}
        1 => v.push((String::from(IDS[0]), dist_from(&c[0]))),
        2 => v.push((String::from(IDS[1]), dist_from(&c[1]))),
        3 => {
            v.push((String::from(IDS[0]), dist_from(&c[0])));
            v.push((String::from(IDS[1]), dist_from(&c[1])));
        }
        _ => {
            v.push((String::from(IDS[1]), dist_from(&c[1])));
            v.push((String::from(IDS[0]), dist_from(&c[0])));
        }
    }
    v
}

/// counters of id IDS[k] in table t (zeros if absent); asserts no duplicates
fn lookup(t: &Vec<(String, LevelDistribution)>, k: usize) -> [usize; 8] {
    let mut out = [0usize; 8];
    let mut hits = 0;
    let mut i = 0;
    while i < t.len() {
        if t[i].0.as_bytes() == IDS[k].as_bytes() {
            out = as_array(&t[i].1);
            hits += 1;
        }
        i += 1;
    }
    assert!(hits <= 1, "an id occurs twice in a merged table");
    out
}

fn present(sh: u8, k: usize) -> bool {
    match sh {
        0 => false,
        1 => k == 0,
        2 => k == 1,
        _ => true,
    }
}

fn info(app: Vec<(String, LevelDistribution)>, ctx: Vec<(String, LevelDistribution)>, ecu: Vec<(String, LevelDistribution)>, nv: bool) -> StatisticInfo {
    let mut s = StatisticInfo::new();
    s.app_ids = app;
    s.context_ids = ctx;
    s.ecu_ids = ecu;
    s.contained_non_verbose = nv;
    s
}

/// One id table, two parts with table shapes (sa, sb): a.merge(b) and b.merge(a)
/// both equal the per-id sum of the two parts (= the tally of the concatenation).
fn merge_two(sa: u8, sb: u8) {
    let ca: [[u32; 8]; 2] = kani::any();
    let cb: [[u32; 8]; 2] = kani::any();
    let (nva, nvb): (bool, bool) = (kani::any(), kani::any());
    let mut ab = info(table(sa, &ca), Vec::new(), Vec::new(), nva);
    ab.merge(info(table(sb, &cb), Vec::new(), Vec::new(), nvb));
    let mut ba = info(table(sb, &cb), Vec::new(), Vec::new(), nvb);
    ba.merge(info(table(sa, &ca), Vec::new(), Vec::new(), nva));
    let mut k = 0;
    while k < 2 {
        let (m1, m2) = (lookup(&ab.app_ids, k), lookup(&ba.app_ids, k));
        let mut i = 0;
        while i < 8 {
            let xa = if present(sa, k) { ca[k][i] as usize } else { 0 };
            let xb = if present(sb, k) { cb[k][i] as usize } else { 0 };
            assert!(m1[i] == xa + xb, "merge is not the per-id sum of the parts");
            assert!(m2[i] == m1[i], "merge is not commutative");
            i += 1;
        }
        k += 1;
    }
    let n_ids = (present(sa, 0) || present(sb, 0)) as usize + (present(sa, 1) || present(sb, 1)) as usize;
    assert!(ab.app_ids.len() == n_ids && ba.app_ids.len() == n_ids, "merged table has missing or spurious entries");
    assert!(ab.contained_non_verbose == (nva || nvb) && ba.contained_non_verbose == (nva || nvb), "non-verbose flag is not the disjunction");
    assert!(ab.context_ids.is_empty() && ab.ecu_ids.is_empty());
    kani::cover!(true, "merged");
    std::mem::forget(ab);
    std::mem::forget(ba);
}

macro_rules! c10_merge {
    ($name:ident, $sa:expr, $sb:expr) => {
        #[kani::proof]
        #[kani::unwind(11)]
        fn $name() {
            merge_two($sa, $sb);
        }
    };
}
c10_merge!(c10_merge_34, 3, 4);
c10_merge!(c10_merge_12, 1, 2);
c10_merge!(c10_merge_11, 1, 1);
c10_merge!(c10_merge_03, 0, 3);
c10_merge!(c10_merge_30, 3, 0);
c10_merge!(c10_merge_24, 2, 4);
c10_merge!(c10_merge_41, 4, 1);
c10_merge!(c10_merge_00, 0, 0);

/// The three tables are merged independently (no table is skipped or mixed up)
/// even when a part has only ECU entries (messages without extended header).
#[kani::proof]
#[kani::unwind(11)]
fn c10_merge_tables_independent() {
    let c: [[u32; 8]; 2] = kani::any();
    let d: [[u32; 8]; 2] = kani::any();
    let mut a = info(table(1, &c), Vec::new(), table(2, &c), false);
    a.merge(info(Vec::new(), Vec::new(), table(3, &d), true));
    let (app0, ecu0, ecu1) = (lookup(&a.app_ids, 0), lookup(&a.ecu_ids, 0), lookup(&a.ecu_ids, 1));
    let mut i = 0;
    while i < 8 {
        assert!(app0[i] == c[0][i] as usize, "app table changed by a part without app ids");
        assert!(ecu0[i] == d[0][i] as usize, "ecu entry of the second part lost");
        assert!(ecu1[i] == c[1][i] as usize + d[1][i] as usize, "ecu counters not summed");
        i += 1;
    }
    assert!(a.app_ids.len() == 1 && a.context_ids.is_empty() && a.ecu_ids.len() == 2);
    assert!(a.contained_non_verbose, "non-verbose flag of an ecu-only part lost");
    kani::cover!(true);
    std::mem::forget(a);
}

/// Associativity on three parts (one table): (a+b)+c == a+(b+c) == sum.
#[kani::proof]
#[kani::unwind(11)]
fn c10_merge_three_parts_associative() {
    let ca: [[u32; 8]; 2] = kani::any();
    let cb: [[u32; 8]; 2] = kani::any();
    let cc: [[u32; 8]; 2] = kani::any();
    let mut l = info(table(2, &ca), Vec::new(), Vec::new(), false);
    l.merge(info(table(4, &cb), Vec::new(), Vec::new(), false));
    l.merge(info(table(1, &cc), Vec::new(), Vec::new(), true));
    let mut bc = info(table(4, &cb), Vec::new(), Vec::new(), false);
    bc.merge(info(table(1, &cc), Vec::new(), Vec::new(), true));
    let mut r = info(table(2, &ca), Vec::new(), Vec::new(), false);
    r.merge(bc);
    let (l0, l1, r0, r1) = (lookup(&l.app_ids, 0), lookup(&l.app_ids, 1), lookup(&r.app_ids, 0), lookup(&r.app_ids, 1));
    let mut i = 0;
    while i < 8 {
        assert!(l0[i] == cb[0][i] as usize + cc[0][i] as usize && r0[i] == l0[i], "merge is not associative / not the sum");
        assert!(l1[i] == ca[1][i] as usize + cb[1][i] as usize && r1[i] == l1[i], "merge is not associative / not the sum");
        i += 1;
    }
    assert!(l.contained_non_verbose && r.contained_non_verbose);
    kani::cover!(true);
    std::mem::forget(l);
    std::mem::forget(r);
}

// ---- scan loop ------------------------------------------------------------
struct Recorder {
    n: usize,
    mcnt: [u8; 3],
    has_ext: [bool; 3],
    level_bucket: [usize; 3],
    verbose: [bool; 3],
    ecu_present: [bool; 3],
    payload_len: [usize; 3],
}

impl StatisticCollector for Recorder {
    fn collect_statistic(&mut self, s: Statistic) -> Result<(), DltParseError> {
        assert!(self.n < 3, "more visits than messages");
        let i = self.n;
        self.mcnt[i] = s.standard_header.message_counter;
        self.has_ext[i] = s.extended_header.is_some();
        self.level_bucket[i] = bucket(&s.log_level);
        self.verbose[i] = s.is_verbose;
        self.ecu_present[i] = s.standard_header.ecu_id.is_some();
        self.payload_len[i] = s.payload.len();
        self.n += 1;
        std::mem::forget(s);
        Ok(())
    }
}

/// Two literal-layout messages (one with extended header: verbose log message
/// with symbolic counter; one without): each message is visited exactly once,
/// in order, with its decoded headers.
#[kani::proof]
#[kani::unwind(28)]
#[kani::stub(std::fmt::format, crate::models::fmt_format_stub)]
#[kani::stub(core::str::from_utf8, crate::models::from_utf8_stub)]
fn c10_scan_visits_each_message_once() {
    let d: [u8; 6] = kani::any();
    // msg1: HTYP=0x21 (UEH), MCNT, LEN=15, MSIN=0x41 (verbose log info), NOAR=0, "AP\0\0", "C\0\0\0", 1 payload byte
    // msg2: HTYP=0x24 (WEID), MCNT, LEN=10, "EC\0\0", 2 payload bytes
    let data: [u8; 25] = [
        0x21, d[0], 0, 15, 0x41, 0, b'A', b'P', 0, 0, b'C', 0, 0, 0, d[1],
        0x24, d[2], 0, 10, b'E', b'C', 0, 0, d[3], d[4],
    ];
    // complete reads: fragmentation of the source is C07's subject, the scan loop is this harness'
    let src = crate::c07::Src::<25> { data, len: 25, pos: 0, sched: [255; crate::c07::K], step: 0, reads: 0 };
    let mut reader = DltMessageReader::with_capacity(16, 16, src, false);
    let mut rec = Recorder { n: 0, mcnt: [0; 3], has_ext: [false; 3], level_bucket: [9; 3], verbose: [false; 3], ecu_present: [false; 3], payload_len: [0; 3] };
    let r = collect_statistics(&mut reader, &mut rec);
    assert!(r.is_ok(), "scan failed on a well-formed stream");
    assert!(rec.n == 2, "not exactly one visit per message");
    assert!(rec.mcnt[0] == d[0] && rec.mcnt[1] == d[2], "visit order / header values");
    assert!(rec.has_ext[0] && !rec.has_ext[1]);
    assert!(rec.level_bucket[0] == 4 && rec.level_bucket[1] == 0, "log level of the visit");
    assert!(rec.verbose[0] && !rec.verbose[1]);
    assert!(!rec.ecu_present[0] && rec.ecu_present[1]);
    assert!(rec.payload_len[0] == 1 && rec.payload_len[1] == 2, "payload after all headers");
    kani::cover!(true);
    std::mem::forget(reader);
}

/// A part that has only ECU entries (messages without extended header: no
/// application / context ids) still contributes its ECU counters and its
/// non-verbose flag when merged.
#[kani::proof]
#[kani::unwind(11)]
fn c10_merge_ecu_only_part() {
    let c: [[u32; 8]; 2] = kani::any();
    let d: [[u32; 8]; 2] = kani::any();
    let nva: bool = kani::any();
    let mut a = info(Vec::new(), Vec::new(), table(1, &c), nva);
    a.merge(info(Vec::new(), Vec::new(), table(1, &d), true));
    let e0 = lookup(&a.ecu_ids, 0);
    let mut i = 0;
    while i < 8 {
        assert!(e0[i] == c[0][i] as usize + d[0][i] as usize, "ECU counters of a part without app/context ids lost");
        i += 1;
    }
    assert!(a.ecu_ids.len() == 1 && a.app_ids.is_empty() && a.context_ids.is_empty());
    assert!(a.contained_non_verbose, "non-verbose flag of a part without app/context ids lost");
    kani::cover!(true);
    std::mem::forget(a);
}


// ---- the standard collector (id tables modelled, see registry / DESIGN 9.7) -------------
const CIDS: [&str; 3] = ["NONE", "A1", "B2"];
// index 3 (used by the collector scenarios) stands for the empty id

fn lookup_id(t: &Vec<(String, LevelDistribution)>, id: &str) -> ([usize; 8], usize) {
    let mut out = [0usize; 8];
    let mut hits = 0;
    let mut i = 0;
    while i < t.len() {
        if t[i].0.as_bytes() == id.as_bytes() {
            out = as_array(&t[i].1);
            hits += 1;
        }
        i += 1;
    }
    (out, hits)
}

fn std_header(ecu: Option<String>, ext: bool) -> StandardHeader {
    StandardHeader { version: 1, endianness: Endianness::Little, has_extended_header: ext, message_counter: kani::any(), ecu_id: ecu,
                     session_id: None, timestamp: None, payload_length: 0 }
}

/// One message of a scenario: ECU id (index into CIDS; 0 = absent, 3 = present but empty), extended header
/// present?, application id, context id (indices into CIDS).
#[derive(Clone, Copy)]
struct Step {
    ecu: usize,
    ext: bool,
    app: usize,
    ctx: usize,
}
const fn st(ecu: usize, ext: bool, app: usize, ctx: usize) -> Step {
    Step { ecu, ext, app, ctx }
}

fn cid(k: usize) -> String {
    // index 3: an id field that decodes to the empty string (starts with NUL)
    String::from(if k == 3 { "" } else { CIDS[k] })
}

/// The messages of a concrete id scenario through StatisticInfoCollector::collect_statistic, then collect():
/// the result equals an independent tally. Which ids occur in which order is the (enumerated) scenario;
/// per message the level (None / 6 levels / Invalid(any)) and the verbose flag are symbolic.
fn collector_tally(steps: &[Step]) {
    let mut c = StatisticInfoCollector::default();
    // tallies indexed like CIDS, index 3 = the empty id
    let mut ecu_t = [[0usize; 8]; 4];
    let mut app_t = [[0usize; 8]; 4];
    let mut ctx_t = [[0usize; 8]; 4];
    let mut nonverbose = false;
    let mut step = 0;
    while step < steps.len() {
        let s = steps[step];
        let level = any_opt_level();
        let verbose: bool = kani::any();
        let b = bucket(&level);
        let ecu = if s.ecu == 0 { None } else { Some(cid(s.ecu)) };
        let eh = if s.ext {
            Some(ExtendedHeader { verbose, argument_count: 0, message_type: MessageType::Log(LogLevel::Info), application_id: cid(s.app), context_id: cid(s.ctx) })
        } else {
            None
        };
        let r = c.collect_statistic(Statistic { log_level: level, storage_header: None, standard_header: std_header(ecu, s.ext),
                                                extended_header: eh, payload: &[], is_verbose: verbose });
        assert!(r.is_ok());
        std::mem::forget(r);
        ecu_t[s.ecu][b] += 1;
        if s.ext {
            app_t[s.app][b] += 1;
            ctx_t[s.ctx][b] += 1;
        }
        nonverbose = nonverbose || !verbose;
        step += 1;
    }
    let info = c.collect();
    let mut total = 0;
    let mut k = 0;
    while k < 4 {
        let name = if k == 3 { "" } else { CIDS[k] };
        let (e, eh) = lookup_id(&info.ecu_ids, name);
        let (a, ah) = lookup_id(&info.app_ids, name);
        let (x, xh) = lookup_id(&info.context_ids, name);
        let (mut se, mut sa, mut sx) = (0, 0, 0);
        let mut i = 0;
        while i < 8 {
            assert!(e[i] == ecu_t[k][i], "ECU id tally differs");
            assert!(a[i] == app_t[k][i], "application id tally differs");
            assert!(x[i] == ctx_t[k][i], "context id tally differs");
            se += ecu_t[k][i];
            sa += app_t[k][i];
            sx += ctx_t[k][i];
            i += 1;
        }
        assert!(eh == (se > 0) as usize && ah == (sa > 0) as usize && xh == (sx > 0) as usize, "an id is listed twice, or listed without messages, or missing");
        total += se;
        k += 1;
    }
    assert!(total == steps.len(), "ECU totals do not add up to the number of messages");
    assert!(info.contained_non_verbose == nonverbose, "non-verbose flag differs from the tally");
    kani::cover!(info.contained_non_verbose, "a non-verbose message occurred");
    kani::cover!(!info.contained_non_verbose, "only verbose messages");
    std::mem::forget(info);
}

macro_rules! c10_collector {
    ($name:ident, $steps:expr) => {
        #[kani::proof]
        #[kani::unwind(10)]
        fn $name() {
            collector_tally(&$steps);
        }
    };
}
// same ECU twice, two contexts of one application, then a message without ECU id and without extended header
c10_collector!(c10_collector_s1, [st(1, true, 1, 1), st(1, true, 1, 2), st(0, false, 0, 0)]);
// no ECU id ("NONE") with extended header, an ECU-only message, the first ids again
c10_collector!(c10_collector_s2, [st(0, true, 2, 1), st(2, false, 0, 0), st(0, true, 2, 1)]);
// an ECU id field that decodes to the empty string is an id of its own, not "NONE"
c10_collector!(c10_collector_s3, [st(3, true, 1, 1), st(0, false, 0, 0), st(3, false, 0, 0)]);
// two ECUs alternating, application / context ids crossing ("A1" is an application here and a context there)
c10_collector!(c10_collector_s4, [st(1, true, 1, 2), st(2, true, 2, 1), st(1, true, 1, 2)]);
// a single message
c10_collector!(c10_collector_s0, [st(1, true, 2, 2)]);
