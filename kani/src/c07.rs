//! C07 — the blocking reader equals slice parsing for every fragmentation of
//! the source. The source is a harness-defined `Read` whose every `read()`
//! returns `Err(Interrupted)` or a short read chosen by a symbolic schedule.
use dlt_core::parse::{dlt_message, DltParseError, ParsedMessage};
use dlt_core::read::{read_message, DltMessageReader};
use std::io::{self, Read};

pub const K: usize = 2;

/// Byte source with a symbolic schedule: step i returns Interrupted if
/// sched[i] == 0, else min(sched[i], available, buf.len()) bytes (>= 1 while
/// data remains). After K steps every read returns all it can.
pub struct Src<const N: usize> {
    pub data: [u8; N],
    pub len: usize,
    pub pos: usize,
    pub sched: [u8; K],
    pub step: usize,
    pub reads: usize,
}

impl<const N: usize> Read for Src<N> {
    fn read(&mut self, buf: &mut [u8]) -> io::Result<usize> {
        self.reads += 1;
        let mut want = usize::MAX;
        if self.step < K {
            let s = self.sched[self.step];
            self.step += 1;
            if s == 0 {
                return Err(io::ErrorKind::Interrupted.into());
            }
            want = s as usize;
        }
        let avail = self.len - self.pos;
        let mut n = if want < avail { want } else { avail };
        if buf.len() < n {
            n = buf.len();
        }
        let mut i = 0;
        while i < n {
            buf[i] = self.data[self.pos + i];
            i += 1;
        }
        self.pos += n;
        Ok(n)
    }
}

fn any_src<const N: usize>(data: [u8; N], len: usize) -> Src<N> {
    Src { data, len, pos: 0, sched: kani::any(), step: 0, reads: 0 }
}

/// (i) no byte stream whatsoever makes the reader panic; a slice is returned
/// only if it is the cut of the stream at the declared length.
/// Stream: up to N fully symbolic bytes; reader capacity CAP; streams are
/// assumed to declare lengths that fit the configured maximum message length
/// (with the public `new()` the maximum is 16 + 65535, i.e. every length fits).
fn any_stream_body<const N: usize, const CAP: usize>(storage: bool) {
    let data: [u8; N] = kani::any();
    let len: usize = kani::any();
    kani::assume(len <= N);
    let st = if storage { 16 } else { 0 };
    if len >= st + 4 {
        let declared = u16::from_be_bytes([data[st + 2], data[st + 3]]) as usize;
        kani::assume(st + declared <= CAP);
    }
    let src = any_src::<N>(data, len);
    let mut reader = DltMessageReader::with_capacity(CAP, CAP, src, storage);
    let r = reader.next_message_slice(); // must not panic
    match r {
        Ok(slice) => {
            if !slice.is_empty() {
                let declared = u16::from_be_bytes([data[st + 2], data[st + 3]]) as usize;
                assert!(len >= st + 4 && st + declared <= len, "a slice although the stream ends before the declared length");
                assert!(slice.len() == st + declared, "slice is not cut at the declared length");
                let mut i = 0;
                while i < slice.len() {
                    assert!(slice[i] == data[i], "slice bytes differ from the stream");
                    i += 1;
                }
                kani::cover!(slice.len() == N, "whole stream is one message");
            } else {
                kani::cover!(len > 0, "non-empty stream yields end-of-stream");
            }
        }
        Err(_) => {
            // an error is acceptable only if the stream does not hold a complete, declarable message at its start
            if len >= st + 4 {
                let declared = u16::from_be_bytes([data[st + 2], data[st + 3]]) as usize;
                assert!(declared < 4 || st + declared > len, "a message completely contained in the stream is not delivered");
            }
            kani::cover!(len >= st + 4, "error outcome");
        }
    }
    std::mem::forget(reader);
}

/// Storage-header mode of the reader: 16 literal storage-header bytes, then up to 6 arbitrary bytes (standard
/// header with any declared length + payload), stream length arbitrary (also cut inside the storage header),
/// any schedule: no panic, a slice only if it is the cut at 16 + declared length, a complete message is delivered.
#[kani::proof]
#[kani::unwind(26)]
#[kani::stub(std::fmt::format, crate::models::fmt_format_stub)]
fn c07_any_stream_storage_22() {
    const N: usize = 22;
    const CAP: usize = 24;
    let d: [u8; 6] = kani::any();
    let data: [u8; N] = [0x44, 0x4C, 0x54, 0x01, 1, 2, 3, 4, 5, 6, 7, 8, b'E', b'C', b'U', 0, d[0], d[1], d[2], d[3], d[4], d[5]];
    let len: usize = kani::any();
    kani::assume(len <= N);
    let declared = u16::from_be_bytes([d[2], d[3]]) as usize;
    kani::assume(16 + declared <= CAP);
    let src = any_src::<N>(data, len);
    let mut reader = DltMessageReader::with_capacity(CAP, CAP, src, true);
    let r = reader.next_message_slice();
    match r {
        Ok(slice) => {
            if !slice.is_empty() {
                assert!(len >= 20 && 16 + declared <= len, "a slice although the stream ends before the declared length");
                assert!(slice.len() == 16 + declared, "slice is not cut at storage header + declared length");
                let mut i = 0;
                while i < slice.len() {
                    assert!(slice[i] == data[i], "slice bytes differ from the stream");
                    i += 1;
                }
                kani::cover!(slice.len() == N, "whole stream is one stored message");
            } else {
                kani::cover!(len > 16, "truncated stored message yields end-of-stream");
            }
        }
        Err(_) => {
            if len >= 20 {
                assert!(declared < 4 || 16 + declared > len, "a stored message completely contained in the stream is not delivered");
            }
            kani::cover!(len >= 20, "error outcome");
        }
    }
    std::mem::forget(reader);
}

/// The public constructor reserves a scratch buffer for a storage header plus the largest declarable message
/// (and a buffered source at least that large), so the assumption of the harnesses above - the declared length
/// fits the configured maximum - holds for EVERY 16-bit length field when the reader is built with `new()`.
#[kani::proof]
#[kani::unwind(6)]
fn c07_new_reserves_largest_declarable_message() {
    let storage: bool = kani::any();
    let src = Src::<4> { data: [0; 4], len: 0, pos: 0, sched: [255; K], step: 0, reads: 0 };
    let reader = DltMessageReader::new(src, storage);
    let (cap, scratch) = dlt_core::read::verif_hooks::capacities(&reader);
    assert!(scratch >= 16 + 65535, "scratch buffer smaller than storage header + largest declarable message");
    assert!(cap >= scratch, "buffered source smaller than the largest message");
    assert!(reader.with_storage_header() == storage);
    kani::cover!(true);
    std::mem::forget(reader);
}

#[kani::proof]
#[kani::unwind(10)]
#[kani::stub(std::fmt::format, crate::models::fmt_format_stub)]
fn c07_any_stream_no_storage_6() {
    any_stream_body::<6, 8>(false);
}

/// (ii) two literal-layout messages (5 and 4 bytes: header + 1 payload byte, header
/// only) with symbolic data, any schedule: the reader delivers exactly the two
/// cuts, then end-of-stream.
#[kani::proof]
#[kani::unwind(11)]
#[kani::stub(std::fmt::format, crate::models::fmt_format_stub)]
fn c07_two_messages_any_schedule() {
    let d: [u8; 4] = kani::any();
    let data: [u8; 9] = [0x20, d[0], 0, 5, d[1], 0x22, d[2], 0, 4];
    let src = any_src::<9>(data, 9);
    let mut reader = DltMessageReader::with_capacity(6, 6, src, false);
    match reader.next_message_slice() {
        Ok(s) => {
            assert!(s.len() == 5, "first cut");
            let mut i = 0;
            while i < 5 { assert!(s[i] == data[i]); i += 1; }
        }
        Err(_) => assert!(false, "first message not delivered"),
    }
    match reader.next_message_slice() {
        Ok(s) => {
            assert!(s.len() == 4, "second cut");
            let mut i = 0;
            while i < 4 { assert!(s[i] == data[5 + i]); i += 1; }
        }
        Err(_) => assert!(false, "second message not delivered"),
    }
    match reader.next_message_slice() {
        Ok(s) => assert!(s.is_empty(), "a third slice from an exhausted stream"),
        Err(_) => {}
    }
    kani::cover!(true, "both delivered");
    std::mem::forget(reader);
}

/// (iii) a truncated tail never yields a message: one complete 5-byte message
/// followed by the first t < 5 bytes of another one.
#[kani::proof]
#[kani::unwind(11)]
#[kani::stub(std::fmt::format, crate::models::fmt_format_stub)]
fn c07_truncated_tail_any_schedule() {
    let d: [u8; 5] = kani::any();
    let data: [u8; 9] = [0x20, d[0], 0, 5, d[1], 0x20, d[2], 0, 5];
    let t: usize = kani::any();
    kani::assume(t < 5);
    let src = any_src::<9>(data, 5 + t);
    let mut reader = DltMessageReader::with_capacity(6, 6, src, false);
    match reader.next_message_slice() {
        Ok(s) => assert!(s.len() == 5, "complete message before the truncation point not delivered"),
        Err(_) => assert!(false, "complete message before the truncation point not delivered"),
    }
    match reader.next_message_slice() {
        Ok(s) => assert!(s.is_empty(), "a message from a truncated tail"),
        Err(_) => { kani::cover!(true, "truncated tail -> error"); }
    }
    kani::cover!(t == 4);
    std::mem::forget(reader);
}

/// (iv) read_message == dlt_message(cut).1 for a minimal non-verbose message
/// (complete reads: fragmentation is the subject of the harnesses above; this one
/// decides the wrapper that parses the delivered slice).
#[kani::proof]
#[kani::unwind(14)]
#[kani::stub(std::fmt::format, crate::models::fmt_format_stub)]
#[kani::stub(core::str::from_utf8, crate::models::from_utf8_stub)]
fn c07_read_message_equals_slice_parse() {
    let d: [u8; 5] = kani::any();
    let data: [u8; 8] = [0x22, d[0], 0, 8, d[1], d[2], d[3], d[4]];
    let src = Src::<8> { data, len: 8, pos: 0, sched: [255; K], step: 0, reads: 0 };
    let mut reader = DltMessageReader::with_capacity(8, 8, src, false);
    let got = read_message(&mut reader, None);
    let want = dlt_message(&data, None, false);
    match (got, want) {
        (Ok(Some(ParsedMessage::Item(a))), Ok((rest, ParsedMessage::Item(b)))) => {
            assert!(rest.is_empty());
            assert!(a == b, "reader's message differs from the slice parse");
            kani::cover!(true, "equal messages");
            std::mem::forget(a);
            std::mem::forget(b);
        }
        _ => assert!(false, "reader and slice parser disagree on the outcome"),
    }
    std::mem::forget(reader);
}

/// The public constructor: `DltMessageReader::new` sizes its scratch buffer for a
/// storage header plus the largest declarable message, so NO 16-bit length field
/// can make the reader index past it (declared length fully symbolic, both
/// storage modes; the stream ends right after the header, so the outcome must be
/// an error or end-of-stream, never a panic and never a slice).
#[kani::proof]
#[kani::unwind(24)]
#[kani::stub(std::fmt::format, crate::models::fmt_format_stub)]
fn c07_default_capacity_any_declared_length() {
    let l: [u8; 2] = kani::any();
    let storage: bool = kani::any();
    let mut data = [0u8; 20];
    data[0] = 0x44;
    data[1] = 0x4C;
    data[2] = 0x54;
    data[3] = 0x01;
    let (n, off) = if storage { (20usize, 16usize) } else { (4usize, 0usize) };
    data[off] = 0x20;
    data[off + 2] = l[0];
    data[off + 3] = l[1];
    let src = Src::<20> { data, len: n, pos: 0, sched: [255; K], step: 0, reads: 0 };
    let mut reader = DltMessageReader::new(src, storage);
    let declared = u16::from_be_bytes(l) as usize;
    match reader.next_message_slice() {
        Ok(s) => {
            // only a header-only message (declared == 4) is completely in the stream
            assert!(s.is_empty() || (declared == 4 && s.len() == off + 4), "a slice although the stream ends before the declared length");
            kani::cover!(!s.is_empty(), "header-only message delivered");
        }
        Err(_) => {
            kani::cover!(declared == 0xFFFF, "largest declarable length -> error, no panic");
            kani::cover!(declared < 4, "length below the header -> error, no panic");
        }
    }
    std::mem::forget(reader);
}

/// One literal-layout 5-byte message followed by a complete header-only message,
/// any 2-step schedule: the first cut is delivered exactly.
#[kani::proof]
#[kani::unwind(11)]
#[kani::stub(std::fmt::format, crate::models::fmt_format_stub)]
fn c07_first_of_two_messages_any_schedule() {
    let d: [u8; 4] = kani::any();
    let data: [u8; 9] = [0x20, d[0], 0, 5, d[1], 0x22, d[2], 0, 4];
    let src = any_src::<9>(data, 9);
    let mut reader = DltMessageReader::with_capacity(6, 6, src, false);
    match reader.next_message_slice() {
        Ok(s) => {
            assert!(s.len() == 5, "first cut");
            let mut i = 0;
            while i < 5 { assert!(s[i] == data[i]); i += 1; }
            kani::cover!(true, "delivered");
        }
        Err(_) => assert!(false, "first message not delivered"),
    }
    std::mem::forget(reader);
}
