//! Kani proof harnesses for dlt-core (out-of-tree; path dependency on a
//! private snapshot of /repo made by /verif/run.py on every run).
//!
//! Naming: module `cNN` = property id; harness names are listed in
//! /verif/registry.py together with tier, CBMC flags and expected covers.
#![allow(dead_code)]
#![allow(clippy::all)]

pub mod models;
pub mod refcodec;

#[cfg(kani)]
mod c14;
#[cfg(kani)]
mod c19;
