//! Kani proof harnesses for dlt-core (out-of-tree; path dependency on a
//! private snapshot of /repo made by /verif/run.py on every run).
//!
//! Naming: module `cNN` = property id; harness names are listed in
//! /verif/registry.py together with tier, CBMC flags and expected covers.
#![cfg_attr(kani, feature(allocator_api))]
#![allow(dead_code)]
#![allow(clippy::all)]

pub mod models;
pub mod refcodec;
#[cfg(kani)]
pub mod shapes;
#[cfg(kani)]
mod c01;
#[cfg(kani)]
mod c08;
#[cfg(kani)]
mod c03;
#[cfg(kani)]
mod c10;
#[cfg(kani)]
mod c16;
#[cfg(kani)]
mod c15;
#[cfg(kani)]
mod c07;
#[cfg(kani)]
mod c04;
#[cfg(kani)]
mod gen_c04;
#[cfg(kani)]
mod c05;
#[cfg(kani)]
mod gen_c05;
#[cfg(kani)]
mod c06;
#[cfg(kani)]
mod c02d;
#[cfg(kani)]
mod c02w;
#[cfg(kani)]
mod gen_args;

#[cfg(kani)]
mod c14;
#[cfg(kani)]
mod c19;
#[cfg(kani)]
mod c09;
#[cfg(kani)]
mod c13;
#[cfg(kani)]
mod c18;
