//! Shape-specialised whole-message machinery (DESIGN.md §2.2).
//!
//! A *shape* fixes every control-relevant byte of a message as a literal:
//! storage-header mode, the HTYP byte (flags and version), the MSIN byte, NOAR,
//! LEN, the type-info words and the 16-bit length prefixes. All data carried by
//! the message (counter, ids, session id, timestamps, argument values, string
//! contents, raw bytes, trailing bytes) is symbolic.
use crate::refcodec::*;
use dlt_core::dlt::*;

pub const MAXMSG: usize = 96;

/// Ids and texts are *literal* in whole-message harnesses: whether a byte is
/// NUL decides where `take_while` stops, i.e. it is control for the parser, and
/// a symbolic byte there makes every downstream length symbolic (measured: the
/// UTF-8 loop was unwound 760 times and the harness did not finish). Arbitrary
/// id / text *contents* (NULs, invalid UTF-8) are decided in the unit harnesses
/// of C19 and c02d (fully symbolic header bytes).
pub fn any_id(len: usize) -> [u8; 4] {
    let lit = *b"Ec7_";
    let mut id = [0u8; 4];
    let mut i = 0;
    while i < len {
        id[i] = lit[i];
        i += 1;
    }
    id
}

/// The literal text of `len` bytes used for names, units and string values. From two bytes on it starts
/// with a two-byte UTF-8 character, so that a byte count and a character count differ (length prefixes
/// count BYTES) and the parser's UTF-8 handling of multi-byte sequences is on the path.
pub const fn lit_text(len: usize) -> &'static str {
    match len {
        0 => "",
        1 => "q",
        2 => "\u{e9}",
        3 => "\u{e9}Z",
        _ => "\u{e9}Z9",
    }
}

/// text of `len` literal non-NUL bytes (valid UTF-8, see lit_text)
pub fn any_text<const K: usize>(len: usize) -> [u8; K] {
    let lit = lit_text(len).as_bytes();
    let mut t = [0u8; K];
    let mut i = 0;
    while i < len && i < K {
        t[i] = lit[i];
        i += 1;
    }
    t
}

#[derive(Clone, Copy)]
pub struct IdLens {
    pub st_ecu: usize,
    pub ecu: usize,
    pub apid: usize,
    pub ctid: usize,
}

// A 4-byte id without NUL makes the parser scan on into the following bytes for the
// terminator (nom's take_while_m_n looks at the whole remaining input), so a full-length
// id is used only where literal bytes follow up to a literal NUL (APID before a short
// CTID); storage ECU id, ECU id and CTID, which are followed by symbolic data (message
// counter, session id, payload), are <= 3 bytes.
// Full-length ids in every position are decided in c02d (fully symbolic header bytes).
pub const IDS_FULL: IdLens = IdLens { st_ecu: 3, ecu: 3, apid: 4, ctid: 3 };
pub const IDS_SHORT: IdLens = IdLens { st_ecu: 3, ecu: 2, apid: 1, ctid: 0 };

pub fn any_header_data(l: IdLens, version: u8, mtin: u8, noar: u8) -> HeaderData {
    HeaderData {
        st_secs: kani::any(),
        st_micros: kani::any(),
        st_ecu: any_id(l.st_ecu),
        st_ecu_len: l.st_ecu,
        version,
        mcnt: kani::any(),
        ecu: any_id(l.ecu),
        ecu_len: l.ecu,
        session: kani::any(),
        timestamp: kani::any(),
        mtin,
        noar,
        apid: any_id(l.apid),
        apid_len: l.apid,
        ctid: any_id(l.ctid),
        ctid_len: l.ctid,
    }
}

pub fn str_is(s: &str, bytes: &[u8; 4], len: usize) -> bool {
    let sb = s.as_bytes();
    if sb.len() != len {
        return false;
    }
    let mut i = 0;
    while i < len {
        if sb[i] != bytes[i] {
            return false;
        }
        i += 1;
    }
    true
}

pub fn bytes_are(got: &[u8], want: &[u8], len: usize) -> bool {
    if got.len() != len {
        return false;
    }
    let mut i = 0;
    while i < len {
        if got[i] != want[i] {
            return false;
        }
        i += 1;
    }
    true
}

/// Field-by-field comparison of the parsed headers with the data the
/// reference encoder was given.
pub fn check_headers(m: &Message, storage: bool, htyp: u8, msin: u8, h: &HeaderData, payload_len: u16) {
    match (&m.storage_header, storage) {
        (Some(sh), true) => {
            assert!(sh.timestamp.seconds == h.st_secs);
            assert!(sh.timestamp.microseconds == h.st_micros);
            assert!(str_is(&sh.ecu_id, &h.st_ecu, h.st_ecu_len));
        }
        (None, false) => {}
        _ => assert!(false, "storage header presence"),
    }
    let sh = &m.header;
    assert!(sh.version == htyp >> 5);
    assert!((sh.endianness == Endianness::Big) == (htyp & HTYP_MSBF != 0));
    assert!(sh.has_extended_header == (htyp & HTYP_UEH != 0));
    assert!(sh.message_counter == h.mcnt);
    assert!(sh.payload_length == payload_len);
    match &sh.ecu_id {
        Some(e) => assert!(htyp & HTYP_WEID != 0 && str_is(e, &h.ecu, h.ecu_len)),
        None => assert!(htyp & HTYP_WEID == 0),
    }
    match sh.session_id {
        Some(s) => assert!(htyp & HTYP_WSID != 0 && s == h.session),
        None => assert!(htyp & HTYP_WSID == 0),
    }
    match sh.timestamp {
        Some(t) => assert!(htyp & HTYP_WTMS != 0 && t == h.timestamp),
        None => assert!(htyp & HTYP_WTMS == 0),
    }
    match &m.extended_header {
        Some(eh) => {
            assert!(htyp & HTYP_UEH != 0);
            assert!(eh.verbose == (msin & 1 == 1));
            assert!(eh.argument_count == h.noar);
            assert!(eh.message_type == crate::c14::ref_message_type(msin));
            assert!(str_is(&eh.application_id, &h.apid, h.apid_len));
            assert!(str_is(&eh.context_id, &h.ctid, h.ctid_len));
        }
        None => assert!(htyp & HTYP_UEH == 0),
    }
}

/// One verbose argument layout (control part literal, data symbolic).
#[derive(Clone, Copy, PartialEq)]
pub enum AK {
    Bool,
    U(u8),   // bytes 1,2,4,8,16
    S(u8),
    F(u8),   // 4, 8
    UFix(u8), // 4, 8 (fixed point, unsigned)
    SFix(u8),
    Str,
    Raw,
}

#[derive(Clone, Copy)]
pub struct ArgShape {
    pub kind: AK,
    pub vari: bool,
    pub name_len: usize, // 0..3, only with vari
    pub unit_len: usize, // 0..3, only with vari and numeric kinds
    pub body_len: usize, // string / raw length 0..3
    pub scod: u8,        // string coding bits 0..7
    pub trai: bool,
}

pub const fn arg(kind: AK) -> ArgShape {
    ArgShape { kind, vari: false, name_len: 0, unit_len: 0, body_len: 2, scod: 0, trai: false }
}
pub const fn arg_v(kind: AK, name_len: usize, unit_len: usize) -> ArgShape {
    ArgShape { kind, vari: true, name_len, unit_len, body_len: 2, scod: 1, trai: false }
}

/// Symbolic data of one argument (superset; only what the kind uses is read).
#[derive(Clone, Copy)]
pub struct ArgData {
    pub name: [u8; 4],
    pub unit: [u8; 4],
    pub body: [u8; 4],
    pub val: u128,
    pub quant: u32,
    pub offset: u64,
}

pub fn any_arg_data(a: &ArgShape) -> ArgData {
    ArgData {
        name: any_text::<4>(a.name_len),
        unit: any_text::<4>(a.unit_len),
        body: if a.kind == AK::Str { any_text::<4>(a.body_len) } else { kani::any() },
        val: kani::any(),
        quant: kani::any(),
        offset: kani::any(),
    }
}

pub fn type_info_word(a: &ArgShape) -> u32 {
    let mut w: u32 = match a.kind {
        AK::Bool => TI_BOOL, // the crate's canonical bool carries TYLE=0; TYLE=1 (PRS) is accepted on decode (dialect)
        AK::U(n) => TI_UINT | tyle(n),
        AK::S(n) => TI_SINT | tyle(n),
        AK::F(n) => TI_FLOA | tyle(n),
        AK::UFix(n) => TI_UINT | TI_FIXP | tyle(n),
        AK::SFix(n) => TI_SINT | TI_FIXP | tyle(n),
        AK::Str => TI_STRG,
        AK::Raw => TI_RAWD,
    };
    if a.vari {
        w |= TI_VARI;
    }
    if a.trai {
        w |= TI_TRAI;
    }
    w |= (a.scod as u32) << TI_SCOD_SHIFT;
    w
}

const fn tyle(bytes: u8) -> u32 {
    match bytes {
        1 => 1,
        2 => 2,
        4 => 3,
        8 => 4,
        _ => 5,
    }
}

pub fn put_val<const N: usize>(b: &mut Buf<N>, big: bool, bytes: u8, v: u128) {
    match bytes {
        1 => b.put(v as u8),
        2 => b.put_u16(big, v as u16),
        4 => b.put_u32(big, v as u32),
        8 => b.put_u64(big, v as u64),
        _ => b.put_u128(big, v),
    }
}

/// Reference encoding of one verbose argument (PRS layout):
/// type info; for STRG/RAWD: data length, then (VARI) name length + name;
/// for BOOL: (VARI) name length + name; for numeric kinds: (VARI) name length,
/// unit length, name, unit; (FIXP) quantization f32 + offset; then the data.
pub fn put_arg<const N: usize>(b: &mut Buf<N>, big: bool, a: &ArgShape, d: &ArgData) {
    b.put_u32(big, type_info_word(a));
    match a.kind {
        AK::Str | AK::Raw => {
            let l = if a.kind == AK::Str { a.body_len + 1 } else { a.body_len };
            b.put_u16(big, l as u16);
            if a.vari {
                b.put_u16(big, (a.name_len + 1) as u16);
                put_text_nul(b, &d.name, a.name_len);
            }
            b.put_bytes(&d.body, a.body_len);
            if a.kind == AK::Str {
                b.put(0);
            }
        }
        AK::Bool => {
            if a.vari {
                b.put_u16(big, (a.name_len + 1) as u16);
                put_text_nul(b, &d.name, a.name_len);
            }
            b.put(d.val as u8);
        }
        AK::U(n) | AK::S(n) | AK::F(n) | AK::UFix(n) | AK::SFix(n) => {
            if a.vari {
                b.put_u16(big, (a.name_len + 1) as u16);
                b.put_u16(big, (a.unit_len + 1) as u16);
                put_text_nul(b, &d.name, a.name_len);
                put_text_nul(b, &d.unit, a.unit_len);
            }
            if matches!(a.kind, AK::UFix(_) | AK::SFix(_)) {
                b.put_u32(big, d.quant);
                if n == 4 {
                    b.put_u32(big, d.offset as u32);
                } else {
                    b.put_u64(big, d.offset);
                }
            }
            put_val(b, big, n, d.val);
        }
    }
}

pub fn arg_len(a: &ArgShape) -> usize {
    let vari_name = if a.vari { 2 + a.name_len + 1 } else { 0 };
    let vari_unit = if a.vari { 2 + a.unit_len + 1 } else { 0 };
    4 + match a.kind {
        AK::Str => 2 + vari_name + a.body_len + 1,
        AK::Raw => 2 + vari_name + a.body_len,
        AK::Bool => vari_name + 1,
        AK::U(n) | AK::S(n) | AK::F(n) => vari_name + vari_unit + n as usize,
        AK::UFix(n) | AK::SFix(n) => vari_name + vari_unit + 4 + n as usize + n as usize,
    }
}

fn text_is(s: &Option<String>, want: &[u8; 4], len: usize) -> bool {
    match s {
        Some(s) => str_is(s, want, len),
        None => false,
    }
}

/// The TypeInfo value the reference expects for an argument shape.
pub fn expected_type_info(a: &ArgShape) -> TypeInfo {
    let tl = |n: u8| match n {
        1 => TypeLength::BitLength8,
        2 => TypeLength::BitLength16,
        4 => TypeLength::BitLength32,
        8 => TypeLength::BitLength64,
        _ => TypeLength::BitLength128,
    };
    let fw = |n: u8| if n == 4 { FloatWidth::Width32 } else { FloatWidth::Width64 };
    TypeInfo {
        kind: match a.kind {
            AK::Bool => TypeInfoKind::Bool,
            AK::U(n) => TypeInfoKind::Unsigned(tl(n)),
            AK::S(n) => TypeInfoKind::Signed(tl(n)),
            AK::F(n) => TypeInfoKind::Float(fw(n)),
            AK::UFix(n) => TypeInfoKind::UnsignedFixedPoint(fw(n)),
            AK::SFix(n) => TypeInfoKind::SignedFixedPoint(fw(n)),
            AK::Str => TypeInfoKind::StringType,
            AK::Raw => TypeInfoKind::Raw,
        },
        coding: match a.scod {
            0 => StringCoding::ASCII,
            1 => StringCoding::UTF8,
            v => StringCoding::Reserved(v),
        },
        has_variable_info: a.vari,
        has_trace_info: a.trai,
    }
}

/// Compare a parsed argument with the shape + data it was encoded from.
pub fn check_arg(got: &Argument, a: &ArgShape, d: &ArgData) {
    assert!(got.type_info == expected_type_info(a), "type info");
    let has_unit = a.vari && !matches!(a.kind, AK::Bool | AK::Str | AK::Raw);
    if a.vari {
        assert!(text_is(&got.name, &d.name, a.name_len), "name");
    } else {
        assert!(got.name.is_none());
    }
    if has_unit {
        assert!(text_is(&got.unit, &d.unit, a.unit_len), "unit");
    } else {
        assert!(got.unit.is_none());
    }
    match a.kind {
        AK::UFix(n) | AK::SFix(n) => match &got.fixed_point {
            Some(fp) => {
                assert!(fp.quantization.to_bits() == d.quant, "quantization bits");
                match fp.offset {
                    FixedPointValue::I32(o) => assert!(n == 4 && o as u32 == d.offset as u32),
                    FixedPointValue::I64(o) => assert!(n == 8 && o as u64 == d.offset),
                }
            }
            None => assert!(false, "fixed point data missing"),
        },
        _ => assert!(got.fixed_point.is_none()),
    }
    let ok = match (&got.value, a.kind) {
        (Value::Bool(x), AK::Bool) => *x == d.val as u8,
        (Value::U8(x), AK::U(1)) => *x == d.val as u8,
        (Value::U16(x), AK::U(2)) => *x == d.val as u16,
        (Value::U32(x), AK::U(4)) | (Value::U32(x), AK::UFix(4)) => *x == d.val as u32,
        (Value::U64(x), AK::U(8)) | (Value::U64(x), AK::UFix(8)) => *x == d.val as u64,
        (Value::U128(x), AK::U(16)) => *x == d.val,
        (Value::I8(x), AK::S(1)) => *x as u8 == d.val as u8,
        (Value::I16(x), AK::S(2)) => *x as u16 == d.val as u16,
        (Value::I32(x), AK::S(4)) | (Value::I32(x), AK::SFix(4)) => *x as u32 == d.val as u32,
        (Value::I64(x), AK::S(8)) | (Value::I64(x), AK::SFix(8)) => *x as u64 == d.val as u64,
        (Value::I128(x), AK::S(16)) => *x as u128 == d.val,
        (Value::F32(x), AK::F(4)) => x.to_bits() == d.val as u32,
        (Value::F64(x), AK::F(8)) => x.to_bits() == d.val as u64,
        (Value::StringVal(s), AK::Str) => str_is(s, &d.body, a.body_len),
        (Value::Raw(r), AK::Raw) => bytes_are(r, &d.body, a.body_len),
        _ => false,
    };
    assert!(ok, "argument value");
}

/// Build the Argument value (for the writer direction) from shape + data.
pub fn make_arg(a: &ArgShape, d: &ArgData) -> Argument {
    // texts are literal (see any_text): build them from a static str in one allocation
    let text = |_t: &[u8; 4], len: usize| -> String { String::from(lit_text(len)) };
    let has_unit = a.vari && !matches!(a.kind, AK::Bool | AK::Str | AK::Raw);
    Argument {
        type_info: expected_type_info(a),
        name: if a.vari { Some(text(&d.name, a.name_len)) } else { None },
        unit: if has_unit { Some(text(&d.unit, a.unit_len)) } else { None },
        fixed_point: match a.kind {
            AK::UFix(4) | AK::SFix(4) => Some(FixedPoint { quantization: f32::from_bits(d.quant), offset: FixedPointValue::I32(d.offset as u32 as i32) }),
            AK::UFix(_) | AK::SFix(_) => Some(FixedPoint { quantization: f32::from_bits(d.quant), offset: FixedPointValue::I64(d.offset as i64) }),
            _ => None,
        },
        value: match a.kind {
            AK::Bool => Value::Bool(d.val as u8),
            AK::U(1) => Value::U8(d.val as u8),
            AK::U(2) => Value::U16(d.val as u16),
            AK::U(4) | AK::UFix(4) => Value::U32(d.val as u32),
            AK::U(8) | AK::UFix(8) => Value::U64(d.val as u64),
            AK::U(_) | AK::UFix(_) => Value::U128(d.val),
            AK::S(1) => Value::I8(d.val as u8 as i8),
            AK::S(2) => Value::I16(d.val as u16 as i16),
            AK::S(4) | AK::SFix(4) => Value::I32(d.val as u32 as i32),
            AK::S(8) | AK::SFix(8) => Value::I64(d.val as u64 as i64),
            AK::S(_) | AK::SFix(_) => Value::I128(d.val as i128),
            AK::F(4) => Value::F32(f32::from_bits(d.val as u32)),
            AK::F(_) => Value::F64(f64::from_bits(d.val as u64)),
            AK::Str => Value::StringVal(text(&d.body, a.body_len)),
            AK::Raw => {
                let mut v = Vec::with_capacity(a.body_len);
                let mut i = 0;
                while i < a.body_len {
                    v.push(d.body[i]);
                    i += 1;
                }
                Value::Raw(v)
            }
        },
    }
}
