//! C03 — no byte sequence can crash the slice parsers or the use of what they
//! return. Kani's default checks are the property (overflow, bounds, unwrap,
//! unreachable, pointer validity): these harnesses run with memory-safety checks
//! ON. Further C03 coverage comes from re-running the C02d / C04 / C06 / C13 /
//! C19 harnesses (fully symbolic units, corrupted LEN) under the same checks.
use crate::c01::*;
use crate::refcodec::*;
use crate::shapes::*;
use dlt_core::parse::{dlt_consume_msg, dlt_message, skip_storage_header, ParsedMessage};

/// skip_storage_header on every input of up to 18 bytes.
#[kani::proof]
#[kani::unwind(20)]
#[kani::stub(std::fmt::format, crate::models::fmt_format_stub)]
fn c03_skip_storage_header_any_bytes() {
    let buf: [u8; 18] = kani::any();
    let len: usize = kani::any();
    kani::assume(len <= 18);
    match skip_storage_header(&buf[..len]) {
        Ok((rest, n)) => {
            assert!(n == 16 && rest.len() == len - 16);
            assert!(buf[0] == 0x44 && buf[1] == 0x4C && buf[2] == 0x54 && buf[3] == 0x01);
            kani::cover!(true, "skipped");
        }
        Err(_) => {
            kani::cover!(len >= 16, "long enough but no pattern");
        }
    }
}

/// dlt_consume_msg on a literal pattern followed by fully symbolic bytes
/// (storage header fields + standard header incl. HTYP and LEN), symbolic length.
#[kani::proof]
#[kani::unwind(24)]
#[kani::stub(std::fmt::format, crate::models::fmt_format_stub)]
#[kani::stub(core::str::from_utf8, crate::models::from_utf8_stub)]
fn c03_consume_msg_any_header_bytes() {
    let d: [u8; 18] = kani::any();
    let buf: [u8; 22] = [0x44, 0x4C, 0x54, 0x01, d[0], d[1], d[2], d[3], d[4], d[5], d[6], d[7], d[8], d[9], d[10], d[11], d[12], d[13], d[14], d[15], d[16], d[17]];
    let len: usize = kani::any();
    kani::assume(len <= 22);
    match dlt_consume_msg(&buf[..len]) {
        Ok((rest, Some(n))) => {
            assert!(n as usize <= len && rest.len() == len - n as usize);
            kani::cover!(true, "consumed");
        }
        Ok((_, None)) => assert!(len == 0),
        Err(_) => {
            kani::cover!(true, "refused");
        }
    }
}

/// A literal (fully concrete) message in which the byte at one position is
/// replaced by an arbitrary byte: the parser returns a value or an error and
/// never panics; a returned message can be measured and its arguments are valid.
pub fn one_byte_corrupted(s: &Shape, from: usize, to: usize) {
    let bt = build(s, 2, None, None);
    let n = bt.buf.n;
    let mut p = from;
    while p < to && p < n {
        let mut b = bt.buf;
        b.b[p] = kani::any();
        match dlt_message(b.slice(), None, s.storage) {
            Ok((rest, ParsedMessage::Item(m))) => {
                assert!(rest.len() <= n);
                let _ = m.byte_len();
                if let dlt_core::dlt::PayloadContent::Verbose(args) = &m.payload {
                    let mut i = 0;
                    while i < args.len() {
                        assert!(args[i].valid(), "returned argument fails the crate's validity check");
                        let _ = args[i].len();
                        i += 1;
                    }
                }
                kani::cover!(true, "corrupted message still parsed");
                std::mem::forget(m);
            }
            Ok(_) => {}
            Err(_) => {
                kani::cover!(true, "corrupted message refused");
            }
        }
        p += 1;
    }
}

macro_rules! c03_corrupt {
    ($name:ident, $shape:expr, $from:expr, $to:expr) => {
        #[kani::proof]
        #[kani::unwind(40)]
        #[kani::stub(std::fmt::format, crate::models::fmt_format_stub)]
        #[kani::stub(core::str::from_utf8, crate::models::from_utf8_stub)]
        #[kani::stub(dlt_core::parse::forward_to_next_storage_header, crate::models::forward_stub)]
        fn $name() {
            let s: Shape = $shape;
            one_byte_corrupted(&s, $from, $to);
        }
    };
}

const S_V_U16: Shape = Shape { storage: false, htyp: H_EXT_LE, msin: M_LOG_INFO_V, ids: IDS_SHORT, payload: P::Verbose(&[arg(AK::U(2))]) };
c03_corrupt!(c03_corrupt_verbose_u16_htyp, S_V_U16, 0, 1);
c03_corrupt!(c03_corrupt_verbose_u16_len, S_V_U16, 2, 4);
c03_corrupt!(c03_corrupt_verbose_u16_msin_noar, S_V_U16, 4, 6);
c03_corrupt!(c03_corrupt_verbose_u16_ids, S_V_U16, 6, 14);
c03_corrupt!(c03_corrupt_verbose_u16_typeinfo, S_V_U16, 14, 18);

/// Length arithmetic with long names / strings (symbolic length up to the
/// largest a parser-produced argument can have: arguments live inside a payload
/// of at most 65535 - 4 header bytes, so name + terminators + type info + length
/// fields fit 16 bits): as_bytes / len never panic (`len as u16 + 1`) and agree.
#[kani::proof]
#[kani::unwind(3)]
fn c03_len_arith_long_name() {
    use byteorder::BigEndian;
    use dlt_core::dlt::*;
    let n: usize = kani::any();
    kani::assume(n <= 65535 - 4 - 4 - 2 - 1 - 1);
    let name = unsafe { String::from_utf8_unchecked(vec![b'a'; n]) };
    let a = Argument {
        type_info: TypeInfo { kind: TypeInfoKind::Bool, coding: StringCoding::ASCII, has_variable_info: true, has_trace_info: false },
        name: Some(name),
        unit: None,
        fixed_point: None,
        value: Value::Bool(1),
    };
    let l = a.len();
    let b = a.as_bytes::<BigEndian>();
    assert!(b.len() == l);
    assert!(l == 4 + 2 + n + 1 + 1);
    assert!(b[4] == (((n + 1) >> 8) & 0xff) as u8 && b[5] == ((n + 1) & 0xff) as u8, "16-bit name length prefix");
    kani::cover!(n == 65523, "longest name");
    std::mem::forget(b);
    std::mem::forget(a);
}
