//! C03 — no byte sequence can crash the slice parsers or the use of what they
//! return. Kani's default checks are the property (overflow, bounds, unwrap,
//! unreachable, pointer validity): these harnesses run with memory-safety checks
//! ON. Further C03 coverage comes from re-running the C02d / C04 / C06 / C13 /
//! C19 harnesses (fully symbolic units, corrupted LEN) under the same checks.
use crate::c01::*;
use crate::refcodec::*;
use crate::shapes::*;
use dlt_core::parse::{dlt_consume_msg, dlt_message, skip_storage_header, ParsedMessage};

/// skip_storage_header on every input of up to 18 bytes.
#[kani::proof]
#[kani::unwind(20)]
#[kani::stub(std::fmt::format, crate::models::fmt_format_stub)]
fn c03_skip_storage_header_any_bytes() {
    let buf: [u8; 18] = kani::any();
    let len: usize = kani::any();
    kani::assume(len <= 18);
    let r = skip_storage_header(&buf[..len]);
    match &r {
        Ok((rest, n)) => {
            assert!(*n == 16 && rest.len() == len - 16);
            assert!(buf[0] == 0x44 && buf[1] == 0x4C && buf[2] == 0x54 && buf[3] == 0x01);
            kani::cover!(true, "skipped");
        }
        Err(_) => {
            kani::cover!(len >= 16, "long enough but no pattern");
        }
    }
    std::mem::forget(r);
}

/// dlt_consume_msg: literal storage header, then a standard header whose HTYP,
/// MCNT and LEN are arbitrary bytes (all flag combinations, all declared lengths),
/// followed by literal id / field bytes; complete buffer and three truncations.
fn consume_any_header(avail: usize) {
    let d: [u8; 4] = kani::any();
    let buf: [u8; 34] = [
        0x44, 0x4C, 0x54, 0x01, 1, 2, 3, 4, 5, 6, 7, 8, b'E', b'C', b'U', 0, // storage header
        d[0], d[1], d[2], d[3], b'E', b'c', 0, 0, 9, 9, 9, 9, 7, 7, 7, 7, 0x41, 0,
    ];
    let r = dlt_consume_msg(&buf[..avail]);
    match &r {
        Ok((rest, Some(n))) => {
            assert!(*n as usize <= avail && rest.len() == avail - *n as usize);
            assert!(*n == 16 + u16::from_be_bytes([d[2], d[3]]) as u64, "consumed count is not storage header + declared length");
            kani::cover!(true, "consumed");
        }
        Ok((_, None)) => assert!(false, "no message on non-empty input"),
        Err(_) => {
            kani::cover!(true, "refused");
        }
    }
    std::mem::forget(r);
}

#[kani::proof]
#[kani::unwind(24)]
#[kani::stub(std::fmt::format, crate::models::fmt_format_stub)]
#[kani::stub(core::str::from_utf8, crate::models::from_utf8_stub)]
fn c03_consume_msg_any_htyp_len_full() {
    consume_any_header(34);
}

#[kani::proof]
#[kani::unwind(24)]
#[kani::stub(std::fmt::format, crate::models::fmt_format_stub)]
#[kani::stub(core::str::from_utf8, crate::models::from_utf8_stub)]
fn c03_consume_msg_any_htyp_len_truncated() {
    consume_any_header(20);
    consume_any_header(27);
}

/// Length arithmetic at the boundary: the longest name a parser-produced
/// argument can carry (arguments live inside a payload of at most 65535 - 4 header
/// bytes: name <= 65535 - 4 - 4 - 2 - 1 - 1 = 65523 bytes). as_bytes / len do not
/// panic (`len as u16 + 1`) and agree. (A symbolic name length makes the writer's
/// allocation size symbolic and exceeds 16 GB; the boundary length is concrete.)
#[kani::proof]
#[kani::unwind(3)]
fn c03_len_arith_longest_name() {
    use byteorder::BigEndian;
    use dlt_core::dlt::*;
    let n: usize = 65523;
    let name = unsafe { String::from_utf8_unchecked(vec![b'a'; n]) };
    let a = Argument {
        type_info: TypeInfo { kind: TypeInfoKind::Bool, coding: StringCoding::ASCII, has_variable_info: true, has_trace_info: false },
        name: Some(name),
        unit: None,
        fixed_point: None,
        value: Value::Bool(kani::any()),
    };
    let l = a.len();
    let b = a.as_bytes::<BigEndian>();
    assert!(b.len() == l);
    assert!(l == 4 + 2 + n + 1 + 1);
    kani::cover!(true, "longest name serialised");
    std::mem::forget(b);
    std::mem::forget(a);
}

/// Re-serialising a stored message whose header declares the largest length the 16-bit field can hold
/// (what a parser returns for a 64 KiB message behind a storage header): the capacity arithmetic of
/// Message::as_bytes (declared length + 16 bytes storage header) must not overflow. Only the declared
/// length is at the boundary; the payload vector is kept short so that the copy loops stay small.
#[kani::proof]
#[kani::unwind(20)]
fn c03_message_as_bytes_largest_declared_length() {
    use dlt_core::dlt::*;
    let m = Message {
        storage_header: Some(StorageHeader { timestamp: DltTimeStamp { seconds: kani::any(), microseconds: kani::any() }, ecu_id: String::from("Ec7") }),
        header: StandardHeader { version: 1, endianness: Endianness::Little, has_extended_header: false, message_counter: kani::any(), ecu_id: None,
                                 session_id: None, timestamp: None, payload_length: 65531 },
        extended_header: None,
        payload: PayloadContent::NonVerbose(kani::any(), Vec::new()),
    };
    assert!(m.byte_len() == 65535);
    let b = m.as_bytes();
    assert!(b.len() == 16 + 4 + 4);
    assert!(b[0] == 0x44 && b[16] == 0x20 && b[18] == 0xFF && b[19] == 0xFF);
    kani::cover!(true, "serialised");
    std::mem::forget(b);
    std::mem::forget(m);
}
