//! C19 — fixed-size NUL-terminated fields consume their size and yield the
//! clean prefix.
use crate::models::utf8_valid_up_to;
use dlt_core::parse::{dlt_zero_terminated_string, DltParseError};

const N: usize = 6;

fn body() {
    let buf: [u8; N] = kani::any();
    let len: usize = kani::any();
    kani::assume(len <= N);
    let size: usize = kani::any();
    kani::assume(size <= 65535);
    let s = &buf[..len];
    match dlt_zero_terminated_string(s, size) {
        Ok((rest, text)) => {
            // enough bytes were available
            assert!(len >= size, "returned a string although fewer than size bytes available");
            // consumes exactly `size` bytes
            assert!(rest.len() == len - size);
            assert!(rest.as_ptr() as usize == s.as_ptr() as usize + size);
            // bytes before the first NUL among the first `size` bytes
            let mut cut = size;
            let mut i = 0usize;
            while i < size {
                if buf[i] == 0 {
                    cut = i;
                    break;
                }
                i += 1;
            }
            let (upto, _) = utf8_valid_up_to(&buf[..cut]);
            // longest valid UTF-8 prefix of those bytes
            assert!(text.len() == upto);
            assert!(text.as_ptr() as usize == s.as_ptr() as usize);
            kani::cover!(cut < size && size > 0, "NUL inside the field");
            kani::cover!(upto < cut, "invalid UTF-8 salvaged to a prefix");
            kani::cover!(cut == size && size == N, "no NUL, full buffer");
            kani::cover!(upto >= 2 && text.as_bytes()[0] >= 0x80, "multi-byte sequence kept");
        }
        Err(DltParseError::IncompleteParse { needed }) => {
            assert!(len < size, "incomplete although size bytes are available");
            if let Some(n) = needed {
                assert!(n.get() >= 1 && n.get() <= size - len, "hint larger than the shortfall");
            }
            kani::cover!(needed.is_some(), "incomplete with a hint");
            kani::cover!(len == 0 && size == 65535, "empty input, maximum size");
        }
        Err(_) => {
            assert!(false, "hard error from fixed-size string extraction");
        }
    }
}

/// With std's real UTF-8 validator.
#[kani::proof]
#[kani::unwind(8)]
#[kani::stub(std::fmt::format, crate::models::fmt_format_stub)]
fn c19_zstring_std_utf8() {
    body()
}

/// With the byte-wise UTF-8 model (DESIGN §2.3).
#[kani::proof]
#[kani::unwind(8)]
#[kani::stub(std::fmt::format, crate::models::fmt_format_stub)]
#[kani::stub(core::str::from_utf8, crate::models::from_utf8_stub)]
fn c19_zstring_model_utf8() {
    body()
}

/// The UTF-8 model agrees with std's `from_utf8` on every input of up to 4
/// bytes (verdict and valid_up_to).
#[kani::proof]
#[kani::unwind(6)]
fn c19_utf8_model_vs_std() {
    let buf: [u8; 4] = kani::any();
    let len: usize = kani::any();
    kani::assume(len <= 4);
    let s = &buf[..len];
    let (upto, ok) = utf8_valid_up_to(s);
    match core::str::from_utf8(s) {
        Ok(_) => {
            assert!(ok && upto == len);
            kani::cover!(len == 4 && buf[0] >= 0xF0, "4-byte sequence valid");
        }
        Err(e) => {
            assert!(!ok);
            assert!(e.valid_up_to() == upto);
            kani::cover!(upto == 3, "error after 3 valid bytes");
        }
    }
}

// ---- the 4-byte ids of a message obey the same rule ---------------------------
use dlt_core::parse::verif_hooks as ph;

/// expected clean prefix length of a 4-byte id field
fn ref_id_len(f: &[u8]) -> usize {
    let mut cut = 4;
    let mut i = 0;
    while i < 4 {
        if f[i] == 0 {
            cut = i;
            break;
        }
        i += 1;
    }
    utf8_valid_up_to(&f[..cut]).0
}

fn id_matches(s: &str, f: &[u8]) -> bool {
    let n = ref_id_len(f);
    let sb = s.as_bytes();
    if sb.len() != n {
        return false;
    }
    let mut i = 0;
    while i < n {
        if sb[i] != f[i] {
            return false;
        }
        i += 1;
    }
    true
}

/// Application and context id: all 2^64 contents of the two fields (MSIN and
/// NOAR literal), followed by one more symbolic byte.
#[kani::proof]
#[kani::unwind(12)]
#[kani::stub(std::fmt::format, crate::models::fmt_format_stub)]
#[kani::stub(core::str::from_utf8, crate::models::from_utf8_stub)]
fn c19_ids_extended_header() {
    let d: [u8; 9] = kani::any();
    let buf = [0x41u8, 1, d[0], d[1], d[2], d[3], d[4], d[5], d[6], d[7], d[8]];
    match ph::extended_header(&buf) {
        Ok((rest, eh)) => {
            assert!(rest.len() == 1, "id fields do not consume exactly 4 bytes each");
            assert!(id_matches(&eh.application_id, &buf[2..6]), "application id is not the clean prefix before the first NUL");
            assert!(id_matches(&eh.context_id, &buf[6..10]), "context id is not the clean prefix before the first NUL");
            kani::cover!(ref_id_len(&buf[2..6]) == 1 && buf[4] != 0, "bytes after an embedded NUL ignored");
            kani::cover!(ref_id_len(&buf[6..10]) == 4, "full 4-byte context id");
            std::mem::forget(eh);
        }
        Err(_) => assert!(false, "extended header rejected"),
    }
}

/// ECU id of the standard header (HTYP literal: WEID only), followed by payload bytes.
#[kani::proof]
#[kani::unwind(10)]
#[kani::stub(std::fmt::format, crate::models::fmt_format_stub)]
#[kani::stub(core::str::from_utf8, crate::models::from_utf8_stub)]
fn c19_ids_standard_header_ecu() {
    let d: [u8; 6] = kani::any();
    let buf = [0x24u8, 7, 0, 10, d[0], d[1], d[2], d[3], d[4], d[5]];
    match ph::standard_header(&buf) {
        Ok((rest, h)) => {
            assert!(rest.len() == 2);
            match &h.ecu_id {
                Some(e) => assert!(id_matches(e, &buf[4..8]), "ECU id is not the clean prefix before the first NUL"),
                None => assert!(false),
            }
            kani::cover!(ref_id_len(&buf[4..8]) == 2 && buf[6] >= 0x80, "ECU id cut at invalid UTF-8");
            std::mem::forget(h);
        }
        Err(_) => assert!(false, "standard header rejected"),
    }
}

/// ECU id of the storage header.
#[kani::proof]
#[kani::unwind(22)]
#[kani::stub(std::fmt::format, crate::models::fmt_format_stub)]
#[kani::stub(core::str::from_utf8, crate::models::from_utf8_stub)]
#[kani::stub(dlt_core::parse::forward_to_next_storage_header, crate::models::forward_stub)]
fn c19_ids_storage_header_ecu() {
    let d: [u8; 5] = kani::any();
    let buf = [0x44u8, 0x4C, 0x54, 0x01, 1, 2, 3, 4, 5, 6, 7, 8, d[0], d[1], d[2], d[3], d[4]];
    match ph::storage_header(&buf) {
        Ok((rest, Some((sh, skipped)))) => {
            assert!(skipped == 0 && rest.len() == 1);
            assert!(id_matches(&sh.ecu_id, &buf[12..16]), "storage ECU id is not the clean prefix before the first NUL");
            kani::cover!(ref_id_len(&buf[12..16]) == 0, "empty ECU id");
            std::mem::forget(sh);
        }
        _ => assert!(false, "storage header rejected"),
    }
}
