//! C19 — fixed-size NUL-terminated fields consume their size and yield the
//! clean prefix.
use crate::models::utf8_valid_up_to;
use dlt_core::parse::{dlt_zero_terminated_string, DltParseError};

const N: usize = 6;

fn body() {
    let buf: [u8; N] = kani::any();
    let len: usize = kani::any();
    kani::assume(len <= N);
    let size: usize = kani::any();
    kani::assume(size <= 65535);
    let s = &buf[..len];
    match dlt_zero_terminated_string(s, size) {
        Ok((rest, text)) => {
            // enough bytes were available
            assert!(len >= size, "returned a string although fewer than size bytes available");
            // consumes exactly `size` bytes
            assert!(rest.len() == len - size);
            assert!(rest.as_ptr() as usize == s.as_ptr() as usize + size);
            // bytes before the first NUL among the first `size` bytes
            let mut cut = size;
            let mut i = 0usize;
            while i < size {
                if buf[i] == 0 {
                    cut = i;
                    break;
                }
                i += 1;
            }
            let (upto, _) = utf8_valid_up_to(&buf[..cut]);
            // longest valid UTF-8 prefix of those bytes
            assert!(text.len() == upto);
            assert!(text.as_ptr() as usize == s.as_ptr() as usize);
            kani::cover!(cut < size && size > 0, "NUL inside the field");
            kani::cover!(upto < cut, "invalid UTF-8 salvaged to a prefix");
            kani::cover!(cut == size && size == N, "no NUL, full buffer");
            kani::cover!(upto >= 2 && text.as_bytes()[0] >= 0x80, "multi-byte sequence kept");
        }
        Err(DltParseError::IncompleteParse { needed }) => {
            assert!(len < size, "incomplete although size bytes are available");
            if let Some(n) = needed {
                assert!(n.get() >= 1 && n.get() <= size - len, "hint larger than the shortfall");
            }
            kani::cover!(needed.is_some(), "incomplete with a hint");
            kani::cover!(len == 0 && size == 65535, "empty input, maximum size");
        }
        Err(_) => {
            assert!(false, "hard error from fixed-size string extraction");
        }
    }
}

/// With std's real UTF-8 validator.
#[kani::proof]
#[kani::unwind(8)]
#[kani::stub(std::fmt::format, crate::models::fmt_format_stub)]
fn c19_zstring_std_utf8() {
    body()
}

/// With the byte-wise UTF-8 model (DESIGN §2.3).
#[kani::proof]
#[kani::unwind(8)]
#[kani::stub(std::fmt::format, crate::models::fmt_format_stub)]
#[kani::stub(core::str::from_utf8, crate::models::from_utf8_stub)]
fn c19_zstring_model_utf8() {
    body()
}

/// The UTF-8 model agrees with std's `from_utf8` on every input of up to 4
/// bytes (verdict and valid_up_to).
#[kani::proof]
#[kani::unwind(6)]
fn c19_utf8_model_vs_std() {
    let buf: [u8; 4] = kani::any();
    let len: usize = kani::any();
    kani::assume(len <= 4);
    let s = &buf[..len];
    let (upto, ok) = utf8_valid_up_to(s);
    match core::str::from_utf8(s) {
        Ok(_) => {
            assert!(ok && upto == len);
            kani::cover!(len == 4 && buf[0] >= 0xF0, "4-byte sequence valid");
        }
        Err(e) => {
            assert!(!ok);
            assert!(e.valid_up_to() == upto);
            kani::cover!(upto == 3, "error after 3 valid bytes");
        }
    }
}
