//! C01 — P(shape): parsing the reference encoding of a well-formed message
//! yields the message field for field and leaves exactly the trailing bytes.
//! (W(shape), writer == reference bytes, is in c02w.rs; W ∧ P give the
//! serialise-then-parse identity by substitution of equal byte strings.)
use crate::refcodec::*;
use crate::shapes::*;
use dlt_core::dlt::*;
use dlt_core::parse::{dlt_message, ParsedMessage};

#[derive(Clone, Copy)]
pub enum P<'a> {
    Verbose(&'a [ArgShape]),
    NonVerbose(usize),
    Control(usize),
    NetTrace(&'a [usize]),
}

#[derive(Clone, Copy)]
pub struct Shape<'a> {
    pub storage: bool,
    pub htyp: u8,
    pub msin: u8,
    pub ids: IdLens,
    pub payload: P<'a>,
}

pub const MAXARGS: usize = 2;

pub struct Built {
    pub buf: Buf<MAXMSG>,
    pub h: HeaderData,
    pub msg_start: usize,
    pub msg_end: usize,
    pub payload_len: usize,
    pub args: [ArgData; MAXARGS],
    pub nv_id: u32,
    pub nv_data: [u8; 4],
    pub slices: [[u8; 4]; MAXARGS],
}

pub fn payload_size(p: &P) -> usize {
    match p {
        P::Verbose(args) => {
            let mut s = 0;
            let mut i = 0;
            while i < args.len() {
                s += arg_len(&args[i]);
                i += 1;
            }
            s
        }
        P::NonVerbose(extra) => 4 + extra,
        P::Control(extra) => 1 + extra,
        P::NetTrace(lens) => {
            let mut s = 0;
            let mut i = 0;
            while i < lens.len() {
                s += 4 + 2 + lens[i];
                i += 1;
            }
            s
        }
    }
}

pub fn noar_of(p: &P) -> u8 {
    match p {
        P::Verbose(a) => a.len() as u8,
        P::NetTrace(l) => l.len() as u8,
        _ => 0,
    }
}

/// Reference encoding of a message of the shape with fresh symbolic data,
/// followed by `tail` symbolic bytes. `len_field`: None = the correct LEN.
pub fn build(s: &Shape, tail: usize, len_field: Option<u16>, noar: Option<u8>) -> Built {
    let big = s.htyp & HTYP_MSBF != 0;
    let noar = noar.unwrap_or(noar_of(&s.payload));
    let h = any_header_data(s.ids, s.htyp >> 5, s.msin >> 4, noar);
    let mut b = Buf::<MAXMSG>::new();
    if s.storage {
        put_storage_header(&mut b, &h);
    }
    let msg_start = b.n;
    let psize = payload_size(&s.payload);
    let len = headers_len(s.htyp) + psize;
    put_standard_header(&mut b, s.htyp & 0x1f, &h, len_field.unwrap_or(len as u16));
    if s.htyp & HTYP_UEH != 0 {
        put_extended_header(&mut b, s.msin & 0x0f, &h);
    }
    let zero = ArgData { name: [0; 4], unit: [0; 4], body: [0; 4], val: 0, quant: 0, offset: 0 };
    let mut args = [zero; MAXARGS];
    let mut nv_id = 0u32;
    let mut nv_data = [0u8; 4];
    let mut slices = [[0u8; 4]; MAXARGS];
    match s.payload {
        P::Verbose(shapes) => {
            let mut i = 0;
            while i < shapes.len() {
                args[i] = any_arg_data(&shapes[i]);
                put_arg(&mut b, big, &shapes[i], &args[i]);
                i += 1;
            }
        }
        P::NonVerbose(extra) => {
            nv_id = kani::any();
            nv_data = kani::any();
            b.put_u32(big, nv_id);
            b.put_bytes(&nv_data, extra);
        }
        P::Control(extra) => {
            nv_id = kani::any::<u8>() as u32;
            nv_data = kani::any();
            b.put(nv_id as u8);
            b.put_bytes(&nv_data, extra);
        }
        P::NetTrace(lens) => {
            let mut i = 0;
            while i < lens.len() {
                slices[i] = kani::any();
                b.put_u32(big, TI_RAWD);
                b.put_u16(big, lens[i] as u16);
                b.put_bytes(&slices[i], lens[i]);
                i += 1;
            }
        }
    }
    let msg_end = b.n;
    let t: [u8; 4] = kani::any();
    b.put_bytes(&t, tail);
    Built { buf: b, h, msg_start, msg_end, payload_len: psize, args, nv_id, nv_data, slices }
}

pub fn check_payload(m: &Message, s: &Shape, bt: &Built) {
    match (&m.payload, s.payload) {
        (PayloadContent::Verbose(got), P::Verbose(shapes)) => {
            assert!(got.len() == shapes.len());
            let mut i = 0;
            while i < shapes.len() {
                check_arg(&got[i], &shapes[i], &bt.args[i]);
                i += 1;
            }
        }
        (PayloadContent::NonVerbose(id, data), P::NonVerbose(extra)) => {
            assert!(*id == bt.nv_id);
            assert!(bytes_are(data, &bt.nv_data, extra));
        }
        (PayloadContent::ControlMsg(ct, data), P::Control(extra)) => {
            let want = match bt.nv_id as u8 {
                1 => ControlType::Request,
                2 => ControlType::Response,
                n => ControlType::Unknown(n),
            };
            assert!(*ct == want);
            assert!(bytes_are(data, &bt.nv_data, extra));
        }
        (PayloadContent::NetworkTrace(got), P::NetTrace(lens)) => {
            assert!(got.len() == lens.len());
            let mut i = 0;
            while i < lens.len() {
                assert!(bytes_are(&got[i], &bt.slices[i], lens[i]));
                i += 1;
            }
        }
        _ => assert!(false, "payload kind differs from the shape"),
    }
}

/// P(shape)
pub fn parse_identity(s: &Shape, tail: usize) {
    let bt = build(s, tail, None, None);
    let input = bt.buf.slice();
    let r = dlt_message(input, None, s.storage);
    match &r {
        Ok((rest, ParsedMessage::Item(m))) => {
            // remainder is exactly what followed the message
            assert!(rest.len() == tail, "remainder length");
            assert!(rest.as_ptr() as usize == input.as_ptr() as usize + bt.msg_end, "remainder start");
            check_headers(m, s.storage, s.htyp, s.msin, &bt.h, bt.payload_len as u16);
            check_payload(m, s, &bt);
            kani::cover!(true, "parsed to a message");
        }
        Ok((_, ParsedMessage::FilteredOut(_))) => assert!(false, "filtered without a filter"),
        Ok((_, ParsedMessage::Invalid)) => assert!(false, "well-formed message reported invalid"),
        Err(_) => assert!(false, "well-formed message rejected"),
    }
    std::mem::forget(r);
}

// HTYP literals: version 1 in bits 5..7
pub const V1: u8 = 1 << 5;
pub const H_MIN: u8 = V1; // no optional fields, little endian, no ext header
pub const H_EXT_LE: u8 = V1 | HTYP_UEH;
pub const H_EXT_BE: u8 = V1 | HTYP_UEH | HTYP_MSBF;
pub const H_ALL_LE: u8 = V1 | HTYP_UEH | HTYP_WEID | HTYP_WSID | HTYP_WTMS;
pub const H_ALL_BE: u8 = H_ALL_LE | HTYP_MSBF;
// MSIN literals
pub const M_LOG_INFO_V: u8 = 0x41; // verbose, log, info
pub const M_LOG_WARN_NV: u8 = 0x30; // non-verbose, log, warn
pub const M_CTRL_REQ: u8 = 0x16; // non-verbose, control, request
pub const M_CTRL_RESP: u8 = 0x26;
pub const M_NW_CAN_V: u8 = 0x25; // verbose, network trace, CAN
pub const M_APP_V: u8 = 0x23; // verbose, app trace, function in

macro_rules! p_harness {
    ($name:ident, $uw:expr, $shape:expr, $tail:expr) => {
        #[kani::proof]
        #[kani::unwind($uw)]
        #[kani::stub(std::fmt::format, crate::models::fmt_format_stub)]
        #[kani::stub(core::str::from_utf8, crate::models::from_utf8_stub)]
        #[kani::stub(dlt_core::parse::forward_to_next_storage_header, crate::models::forward_stub)]
        fn $name() {
            let s: Shape = $shape;
            parse_identity(&s, $tail);
        }
    };
}

p_harness!(c01_p_nonverbose_min, 20, Shape { storage: false, htyp: H_MIN, msin: 0, ids: IDS_FULL, payload: P::NonVerbose(2) }, 3);
p_harness!(c01_p_nonverbose_ext_storage_be, 20, Shape { storage: true, htyp: H_ALL_BE, msin: M_LOG_WARN_NV, ids: IDS_SHORT, payload: P::NonVerbose(3) }, 2);
p_harness!(c01_p_control_le, 20, Shape { storage: false, htyp: H_EXT_LE, msin: M_CTRL_REQ, ids: IDS_FULL, payload: P::Control(2) }, 1);
p_harness!(c01_p_verbose_bool_le, 20, Shape { storage: false, htyp: H_EXT_LE, msin: M_LOG_INFO_V, ids: IDS_FULL, payload: P::Verbose(&[arg(AK::Bool)]) }, 2);
p_harness!(c01_p_verbose_u32_named_be_storage, 20, Shape { storage: true, htyp: H_ALL_BE, msin: M_LOG_INFO_V, ids: IDS_FULL, payload: P::Verbose(&[arg_v(AK::U(4), 2, 1)]) }, 2);
p_harness!(c01_p_verbose_string_le, 20, Shape { storage: false, htyp: H_EXT_LE, msin: M_APP_V, ids: IDS_SHORT, payload: P::Verbose(&[arg(AK::Str)]) }, 2);
p_harness!(c01_p_nettrace_le, 20, Shape { storage: false, htyp: H_EXT_LE, msin: M_NW_CAN_V, ids: IDS_FULL, payload: P::NetTrace(&[2]) }, 2);
p_harness!(c01_p_nettrace_be, 20, Shape { storage: false, htyp: H_EXT_BE, msin: M_NW_CAN_V, ids: IDS_FULL, payload: P::NetTrace(&[3]) }, 2);

// a NON-verbose payload in a message whose type is network trace stays a non-verbose payload (the payload kind follows
// the verbose bit; only verbose network-trace messages carry slices)
pub const M_NW_CAN_NV: u8 = 0x24; // non-verbose, network trace, CAN
p_harness!(c01_p_nonverbose_nwtrace_type, 20, Shape { storage: false, htyp: H_EXT_BE, msin: M_NW_CAN_NV, ids: IDS_FULL, payload: P::NonVerbose(3) }, 2);

// verbose-kind payloads with zero arguments / slices keep their kind
p_harness!(c01_p_nettrace_empty, 20, Shape { storage: false, htyp: H_EXT_BE, msin: M_NW_CAN_V, ids: IDS_FULL, payload: P::NetTrace(&[]) }, 2);
p_harness!(c01_p_verbose_empty, 20, Shape { storage: false, htyp: H_EXT_LE, msin: M_LOG_INFO_V, ids: IDS_FULL, payload: P::Verbose(&[]) }, 2);

/// probe: storage shape with the specification stub of the pattern search
#[kani::proof]
#[kani::unwind(20)]
#[kani::stub(std::fmt::format, crate::models::fmt_format_stub)]
#[kani::stub(core::str::from_utf8, crate::models::from_utf8_stub)]
#[kani::stub(dlt_core::parse::forward_to_next_storage_header, crate::models::forward_stub)]
fn c01_probe_storage_fwdstub() {
    let s = Shape { storage: true, htyp: H_ALL_BE, msin: M_LOG_WARN_NV, ids: IDS_SHORT, payload: P::NonVerbose(3) };
    parse_identity(&s, 2);
}

// two arguments / two slices (thorough tier: the second argument's parse starts from a remainder that symex no
// longer tracks as concrete, which makes these an order of magnitude more expensive than one-argument shapes)
p_harness!(c01_p_verbose_two_args_u8_bool, 30, Shape { storage: false, htyp: H_EXT_LE, msin: M_LOG_INFO_V, ids: IDS_FULL, payload: P::Verbose(&[arg(AK::U(1)), arg(AK::Bool)]) }, 1);
p_harness!(c01_p_nettrace_two_slices, 30, Shape { storage: false, htyp: H_EXT_LE, msin: M_NW_CAN_V, ids: IDS_FULL, payload: P::NetTrace(&[1, 1]) }, 1);

// ---------------------------------------------------------------------------
// The identity in ONE query: parse(Message::as_bytes(m) ++ tail) == (tail, m)
// for the shape, all data symbolic. (W in c02w and P above decide the two halves
// against the reference encoding; this harness decides their composition on the
// crate's own bytes, without the reference encoder in between.)
// ---------------------------------------------------------------------------
pub fn round_trip(s: &Shape, tail: usize) {
    let bt = build(s, tail, None, None); // supplies the symbolic data and the tail bytes
    let m = crate::c02w::message_of(s, &bt);
    let bytes = m.as_bytes();
    assert!(bytes.len() == bt.msg_end, "serialised length differs from storage header + declared length");
    let mut b = Buf::<MAXMSG>::new();
    b.put_bytes(&bytes, bt.msg_end);
    let mut i = 0;
    while i < tail {
        b.put(bt.buf.b[bt.msg_end + i]);
        i += 1;
    }
    let input = b.slice();
    let r = dlt_message(input, None, s.storage);
    match &r {
        Ok((rest, ParsedMessage::Item(mm))) => {
            assert!(rest.len() == tail, "remainder length");
            assert!(rest.as_ptr() as usize == input.as_ptr() as usize + bt.msg_end, "remainder start");
            check_headers(mm, s.storage, s.htyp, s.msin, &bt.h, bt.payload_len as u16);
            check_payload(mm, s, &bt);
            kani::cover!(true, "round trip");
        }
        _ => assert!(false, "serialised well-formed message not parsed back"),
    }
    std::mem::forget(r);
    std::mem::forget(bytes);
    std::mem::forget(m);
}

macro_rules! rt_harness {
    ($name:ident, $shape:expr, $tail:expr) => {
        #[kani::proof]
        #[kani::unwind(100)]
        #[kani::stub(std::fmt::format, crate::models::fmt_format_stub)]
        #[kani::stub(core::str::from_utf8, crate::models::from_utf8_stub)]
        #[kani::stub(dlt_core::parse::forward_to_next_storage_header, crate::models::forward_stub)]
        fn $name() {
            let s: Shape = $shape;
            round_trip(&s, $tail);
        }
    };
}
rt_harness!(c01_rt_nonverbose_min, Shape { storage: false, htyp: H_MIN, msin: 0, ids: IDS_FULL, payload: P::NonVerbose(2) }, 2);
rt_harness!(c01_rt_control_le, Shape { storage: false, htyp: H_EXT_LE, msin: M_CTRL_REQ, ids: IDS_FULL, payload: P::Control(2) }, 1);
rt_harness!(c01_rt_verbose_bool_le, Shape { storage: false, htyp: H_EXT_LE, msin: M_LOG_INFO_V, ids: IDS_FULL, payload: P::Verbose(&[arg(AK::Bool)]) }, 2);
rt_harness!(c01_rt_nettrace_be, Shape { storage: false, htyp: H_EXT_BE, msin: M_NW_CAN_V, ids: IDS_FULL, payload: P::NetTrace(&[3]) }, 2);
rt_harness!(c01_rt_verbose_u32_named_be_storage, Shape { storage: true, htyp: H_ALL_BE, msin: M_LOG_INFO_V, ids: IDS_FULL, payload: P::Verbose(&[arg_v(AK::U(4), 2, 1)]) }, 2);
rt_harness!(c01_rt_nonverbose_nwtrace_type, Shape { storage: false, htyp: H_EXT_LE, msin: M_NW_CAN_NV, ids: IDS_FULL, payload: P::NonVerbose(2) }, 1);
