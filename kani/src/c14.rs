//! C14 — header-type, message-info and type-info codes decode and re-encode
//! consistently. All three domains are decided completely (2^8, 2^8, 2^32).
use byteorder::{BigEndian, LittleEndian};
use dlt_core::dlt::*;
use dlt_core::parse::verif_hooks as ph;
use std::convert::TryFrom;

const K_BOOL: u32 = 1 << 4;
const K_SINT: u32 = 1 << 5;
const K_UINT: u32 = 1 << 6;
const K_FLOA: u32 = 1 << 7;
const K_ARAY: u32 = 1 << 8;
const K_STRG: u32 = 1 << 9;
const K_RAWD: u32 = 1 << 10;
const VARI: u32 = 1 << 11;
const FIXP: u32 = 1 << 12;
const TRAI: u32 = 1 << 13;
const STRU: u32 = 1 << 14;

/// Independent acceptance predicate written from the PRS type-info table:
/// exactly one of BOOL/SINT/UINT/FLOA/STRG/RAWD among bits 4..10, ARAY clear,
/// and a supported width for the kind.
fn ref_accept(w: u32) -> bool {
    let kinds = w & (K_BOOL | K_SINT | K_UINT | K_FLOA | K_ARAY | K_STRG | K_RAWD);
    let tyle = w & 0xF;
    if kinds == K_BOOL || kinds == K_STRG || kinds == K_RAWD {
        true
    } else if kinds == K_SINT || kinds == K_UINT {
        if w & FIXP != 0 {
            tyle == 3 || tyle == 4
        } else {
            tyle >= 1 && tyle <= 5
        }
    } else if kinds == K_FLOA {
        tyle == 3 || tyle == 4
    } else {
        false
    }
}

/// Bits the format leaves unused for the kind named by `w` (reserved 18..31,
/// STRU which the crate's TypeInfo does not model, TYLE for kinds without a
/// width, FIXP for kinds that cannot be fixed point).
fn unused_mask(w: u32) -> u32 {
    let base = 0xFFFC_0000u32 | STRU;
    let kinds = w & (K_BOOL | K_SINT | K_UINT | K_FLOA | K_ARAY | K_STRG | K_RAWD);
    if kinds == K_BOOL || kinds == K_STRG || kinds == K_RAWD {
        base | 0xF | FIXP
    } else if kinds == K_FLOA {
        base | FIXP
    } else {
        base
    }
}

fn ref_kind(w: u32) -> TypeInfoKind {
    let kinds = w & (K_BOOL | K_SINT | K_UINT | K_FLOA | K_ARAY | K_STRG | K_RAWD);
    let tl = |t: u32| match t {
        1 => TypeLength::BitLength8,
        2 => TypeLength::BitLength16,
        3 => TypeLength::BitLength32,
        4 => TypeLength::BitLength64,
        _ => TypeLength::BitLength128,
    };
    let fw = |t: u32| {
        if t == 3 {
            FloatWidth::Width32
        } else {
            FloatWidth::Width64
        }
    };
    let tyle = w & 0xF;
    if kinds == K_BOOL {
        TypeInfoKind::Bool
    } else if kinds == K_STRG {
        TypeInfoKind::StringType
    } else if kinds == K_RAWD {
        TypeInfoKind::Raw
    } else if kinds == K_FLOA {
        TypeInfoKind::Float(fw(tyle))
    } else if kinds == K_SINT {
        if w & FIXP != 0 {
            TypeInfoKind::SignedFixedPoint(fw(tyle))
        } else {
            TypeInfoKind::Signed(tl(tyle))
        }
    } else if w & FIXP != 0 {
        TypeInfoKind::UnsignedFixedPoint(fw(tyle))
    } else {
        TypeInfoKind::Unsigned(tl(tyle))
    }
}

/// All 2^32 type-info words.
#[kani::proof]
#[kani::unwind(6)]
#[kani::stub(std::fmt::format, crate::models::fmt_format_stub)]
fn c14_typeinfo_all_words() {
    let w: u32 = kani::any();
    match TypeInfo::try_from(w) {
        Err(_) => {
            kani::cover!(true, "rejected word");
            assert!(!ref_accept(w), "rejected a word naming a supported kind+width");
        }
        Ok(t) => {
            kani::cover!(true, "accepted word");
            assert!(ref_accept(w), "accepted a word not naming one supported kind+width");
            // decoded description is what the bit layout prescribes
            assert!(t.kind == ref_kind(w));
            assert!(t.has_variable_info == (w & VARI != 0));
            assert!(t.has_trace_info == (w & TRAI != 0));
            let scod = ((w >> 15) & 7) as u8;
            let coding_ok = match t.coding {
                StringCoding::ASCII => scod == 0,
                StringCoding::UTF8 => scod == 1,
                StringCoding::Reserved(v) => v == scod && scod >= 2,
            };
            assert!(coding_ok);
            let le = t.as_bytes::<LittleEndian>();
            let be = t.as_bytes::<BigEndian>();
            assert!(le.len() == 4 && be.len() == 4);
            // same in both byte orders up to byte reversal
            assert!(le[0] == be[3] && le[1] == be[2] && le[2] == be[1] && le[3] == be[0]);
            let enc = u32::from_le_bytes([le[0], le[1], le[2], le[3]]);
            // differs from the original only in format-unused bits
            assert!((enc ^ w) & !unused_mask(w) == 0);
            // encoding decodes to the same description
            match TypeInfo::try_from(enc) {
                Ok(t2) => assert!(t2 == t),
                Err(_) => assert!(false, "re-encoding is rejected"),
            }
            kani::cover!(enc != w, "non-canonical word accepted");
            std::mem::forget(le);
            std::mem::forget(be);
        }
    }
}

pub(crate) fn ref_message_type(b: u8) -> MessageType {
    let mstp = (b >> 1) & 7;
    let mtin = b >> 4;
    match mstp {
        0 => MessageType::Log(match mtin {
            1 => LogLevel::Fatal,
            2 => LogLevel::Error,
            3 => LogLevel::Warn,
            4 => LogLevel::Info,
            5 => LogLevel::Debug,
            6 => LogLevel::Verbose,
            n => LogLevel::Invalid(n),
        }),
        1 => MessageType::ApplicationTrace(match mtin {
            1 => ApplicationTraceType::Variable,
            2 => ApplicationTraceType::FunctionIn,
            3 => ApplicationTraceType::FunctionOut,
            4 => ApplicationTraceType::State,
            5 => ApplicationTraceType::Vfb,
            n => ApplicationTraceType::Invalid(n),
        }),
        2 => MessageType::NetworkTrace(match mtin {
            0 => NetworkTraceType::Invalid,
            1 => NetworkTraceType::Ipc,
            2 => NetworkTraceType::Can,
            3 => NetworkTraceType::Flexray,
            4 => NetworkTraceType::Most,
            5 => NetworkTraceType::Ethernet,
            6 => NetworkTraceType::Someip,
            n => NetworkTraceType::UserDefined(n),
        }),
        3 => MessageType::Control(match mtin {
            1 => ControlType::Request,
            2 => ControlType::Response,
            n => ControlType::Unknown(n),
        }),
        v => MessageType::Unknown((v, mtin)),
    }
}

/// All 256 MSIN bytes through the conversions.
#[kani::proof]
#[kani::stub(std::fmt::format, crate::models::fmt_format_stub)]
fn c14_msin_all_bytes() {
    let b: u8 = kani::any();
    match MessageType::try_from(b) {
        Ok(t) => {
            assert!(t == ref_message_type(b));
            let back = u8::from(&t) | (b & 1);
            assert!(back == b);
            kani::cover!(matches!(t, MessageType::Unknown(_)));
            kani::cover!(matches!(t, MessageType::Log(LogLevel::Invalid(_))));
        }
        Err(_) => assert!(false, "MSIN byte rejected"),
    }
}

/// All 256 MSIN bytes through the extended-header parser
/// (ids fixed to 4 non-NUL ASCII bytes; they are the subject of C19).
#[kani::proof]
#[kani::unwind(11)]
#[kani::stub(std::fmt::format, crate::models::fmt_format_stub)]
#[kani::stub(core::str::from_utf8, crate::models::from_utf8_stub)]
fn c14_msin_via_extended_header_parse() {
    let b: u8 = kani::any();
    let noar: u8 = kani::any();
    let buf = [b, noar, b'A', b'P', b'P', b'1', b'C', b'T', b'X', b'1'];
    match ph::extended_header(&buf) {
        Ok((rest, eh)) => {
            assert!(rest.len() == 0);
            assert!(eh.verbose == (b & 1 == 1));
            assert!(eh.argument_count == noar);
            assert!(eh.message_type == ref_message_type(b));
            kani::cover!(b == 0xFF);
            std::mem::forget(eh);
        }
        Err(_) => assert!(false, "extended header rejected"),
    }
}

/// All 256 MSIN bytes through the extended-header writer.
#[kani::proof]
#[kani::unwind(6)]
fn c14_msin_via_extended_header_write() {
    let b: u8 = kani::any();
    let noar: u8 = kani::any();
    let eh = ExtendedHeader {
        verbose: b & 1 == 1,
        argument_count: noar,
        message_type: ref_message_type(b),
        application_id: String::new(),
        context_id: String::new(),
    };
    let out = eh.as_bytes();
    assert!(out.len() == 10);
    assert!(out[0] == b && out[1] == noar);
    kani::cover!(b == 0xFF);
    std::mem::forget(out);
    std::mem::forget(eh);
}

/// header_type_byte composition: all field combinations, all versions.
#[kani::proof]
fn c14_htyp_compose() {
    let version: u8 = kani::any();
    let big: bool = kani::any();
    let ueh: bool = kani::any();
    let weid: bool = kani::any();
    let wsid: bool = kani::any();
    let wtms: bool = kani::any();
    let h = StandardHeader {
        version,
        endianness: if big { Endianness::Big } else { Endianness::Little },
        has_extended_header: ueh,
        message_counter: kani::any(),
        ecu_id: if weid { Some(String::new()) } else { None },
        session_id: if wsid { Some(kani::any()) } else { None },
        timestamp: if wtms { Some(kani::any()) } else { None },
        payload_length: 0,
    };
    let b = h.header_type_byte();
    let expect = (ueh as u8)
        | ((big as u8) << 1)
        | ((weid as u8) << 2)
        | ((wsid as u8) << 3)
        | ((wtms as u8) << 4)
        | ((version & 7) << 5);
    assert!(b == expect);
    // header length helpers agree with the layout
    let std_len = 4 + 4 * (weid as u16) + 4 * (wsid as u16) + 4 * (wtms as u16);
    assert!(dlt_core::dlt::verif_hooks::standard_header_length(b) == std_len);
    assert!(dlt_core::dlt::verif_hooks::all_headers_length(b) == std_len + 10 * (ueh as u16));
    assert!(h.overall_length() == std_len + 10 * (ueh as u16));
    kani::cover!(b == 0xFF);
    std::mem::forget(h);
}

/// All 256 HTYP bytes through the standard-header parser: 16 fully symbolic
/// bytes; whenever the parser accepts, the decoded flags/version are what the
/// bit layout prescribes and re-encoding gives back the byte.
#[kani::proof]
#[kani::unwind(18)]
#[kani::stub(std::fmt::format, crate::models::fmt_format_stub)]
#[kani::stub(core::str::from_utf8, crate::models::from_utf8_stub)]
fn c14_htyp_via_standard_header() {
    let buf: [u8; 16] = kani::any();
    let b = buf[0];
    match ph::standard_header(&buf) {
        Ok((rest, h)) => {
            let weid = b & 4 != 0;
            let wsid = b & 8 != 0;
            let wtms = b & 16 != 0;
            let std_len = 4 + 4 * (weid as usize) + 4 * (wsid as usize) + 4 * (wtms as usize);
            assert!(rest.len() == 16 - std_len);
            assert!(h.version == b >> 5);
            assert!((h.endianness == Endianness::Big) == (b & 2 != 0));
            assert!(h.has_extended_header == (b & 1 != 0));
            assert!(h.ecu_id.is_some() == weid);
            assert!(h.session_id.is_some() == wsid);
            assert!(h.timestamp.is_some() == wtms);
            assert!(h.header_type_byte() == b);
            assert!(h.message_counter == buf[1]);
            let len = u16::from_be_bytes([buf[2], buf[3]]);
            assert!(h.overall_length() == len);
            kani::cover!(b == 0xFF);
            kani::cover!(b == 0x00);
            std::mem::forget(h);
        }
        Err(_) => {
            // rejection only because LEN is smaller than the headers
            let len = u16::from_be_bytes([buf[2], buf[3]]) as usize;
            let all = 4
                + 4 * ((b & 4 != 0) as usize)
                + 4 * ((b & 8 != 0) as usize)
                + 4 * ((b & 16 != 0) as usize)
                + 10 * ((b & 1) as usize);
            assert!(len < all);
            kani::cover!(true, "rejected: LEN < headers");
        }
    }
}
