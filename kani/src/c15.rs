//! C15 — computed lengths equal serialised lengths; built messages are
//! self-consistent. (Argument::len == serialised length for every layout and
//! both byte orders is asserted in gen_args::w_arg_*.)
use crate::c01::*;
use crate::refcodec::*;
use crate::shapes::*;
use dlt_core::dlt::*;

fn id_string(_id: &[u8; 4], len: usize) -> String {
    // ids are literal (see shapes::any_id)
    String::from(&"Ec7_"[..len])
}

fn vec_of(d: &[u8; 4], n: usize) -> Vec<u8> {
    let mut v = Vec::with_capacity(n);
    let mut i = 0;
    while i < n {
        v.push(d[i]);
        i += 1;
    }
    v
}

/// Message::new for one configuration shape: payload length, verbose flag,
/// argument count, byte_len, and add_storage_header.
fn new_consistent(s: &Shape, with_ts: bool) {
    let big = s.htyp & HTYP_MSBF != 0;
    let h = any_header_data(s.ids, s.htyp >> 5, s.msin >> 4, 0);
    let nv: [u8; 4] = kani::any();
    let id: u32 = kani::any();
    let mut argdata = [any_arg_data(&arg(AK::Bool)); MAXARGS];
    let payload = match s.payload {
        P::Verbose(shapes) => {
            let mut v = Vec::with_capacity(shapes.len());
            let mut i = 0;
            while i < shapes.len() {
                argdata[i] = any_arg_data(&shapes[i]);
                v.push(make_arg(&shapes[i], &argdata[i]));
                i += 1;
            }
            PayloadContent::Verbose(v)
        }
        P::NonVerbose(extra) => PayloadContent::NonVerbose(id, vec_of(&nv, extra)),
        P::Control(extra) => PayloadContent::ControlMsg(ControlType::from_value(id as u8), vec_of(&nv, extra)),
        P::NetTrace(lens) => {
            let mut v = Vec::with_capacity(lens.len());
            let mut i = 0;
            while i < lens.len() {
                v.push(vec_of(&nv, lens[i]));
                i += 1;
            }
            PayloadContent::NetworkTrace(v)
        }
    };
    let conf = MessageConfig {
        version: s.htyp >> 5,
        counter: h.mcnt,
        endianness: if big { Endianness::Big } else { Endianness::Little },
        ecu_id: if s.htyp & HTYP_WEID != 0 { Some(id_string(&h.ecu, h.ecu_len)) } else { None },
        session_id: if s.htyp & HTYP_WSID != 0 { Some(h.session) } else { None },
        timestamp: if s.htyp & HTYP_WTMS != 0 { Some(h.timestamp) } else { None },
        payload,
        extended_header_info: if s.htyp & HTYP_UEH != 0 {
            Some(ExtendedHeaderConfig { message_type: crate::c14::ref_message_type(s.msin), app_id: id_string(&h.apid, h.apid_len), context_id: id_string(&h.ctid, h.ctid_len) })
        } else {
            None
        },
    };
    let m = Message::new(conf, None);
    let psize = payload_size(&s.payload);
    assert!(m.header.payload_length as usize == psize, "recorded payload length differs from the serialised payload");
    assert!(m.byte_len() as usize == headers_len(s.htyp) + psize, "byte_len differs from the serialisation without storage header");
    assert!(m.header.header_type_byte() == s.htyp, "header type");
    assert!(m.storage_header.is_none());
    match &m.extended_header {
        Some(eh) => {
            let (want_verbose, want_count) = match s.payload {
                P::Verbose(a) => (true, a.len() as u8),
                P::NetTrace(l) => (true, l.len() as u8),
                _ => (false, 0),
            };
            assert!(eh.verbose == want_verbose, "verbose flag is not what the payload kind requires");
            assert!(eh.argument_count == want_count, "argument count is not what the payload kind requires");
            assert!(eh.message_type == crate::c14::ref_message_type(s.msin));
        }
        None => assert!(s.htyp & HTYP_UEH == 0),
    }
    // add_storage_header(Some(ts)) only prepends the given time and the header ECU id (or the default id)
    if with_ts {
        let secs: u32 = kani::any();
        let micros: u32 = kani::any();
        let hdr_before = m.header.clone();
        let m2 = m.add_storage_header(Some(DltTimeStamp { seconds: secs, microseconds: micros }));
        match &m2.storage_header {
            Some(sh) => {
                assert!(sh.timestamp.seconds == secs && sh.timestamp.microseconds == micros, "storage time");
                if s.htyp & HTYP_WEID != 0 {
                    assert!(str_is(&sh.ecu_id, &h.ecu, h.ecu_len), "storage ECU id is not the header ECU id");
                } else {
                    assert!(sh.ecu_id.as_bytes() == b"ECU", "storage ECU id is not the default id");
                }
            }
            None => assert!(false, "no storage header added"),
        }
        assert!(m2.header == hdr_before, "adding a storage header changed the standard header");
        assert!(m2.byte_len() as usize == headers_len(s.htyp) + psize);
        std::mem::forget(m2);
        std::mem::forget(hdr_before);
    } else {
        std::mem::forget(m);
    }
    kani::cover!(true, "message constructed and checked");
}

macro_rules! c15_new {
    ($name:ident, $shape:expr, $ts:expr) => {
        #[kani::proof]
        #[kani::unwind(24)]
        fn $name() {
            let s: Shape = $shape;
            new_consistent(&s, $ts);
        }
    };
}

c15_new!(c15_new_nonverbose_noext, Shape { storage: false, htyp: H_MIN, msin: 0, ids: IDS_FULL, payload: P::NonVerbose(3) }, true);
c15_new!(c15_new_nonverbose_ext_be, Shape { storage: false, htyp: H_ALL_BE, msin: M_LOG_WARN_NV, ids: IDS_SHORT, payload: P::NonVerbose(0) }, true);
c15_new!(c15_new_control, Shape { storage: false, htyp: H_EXT_LE, msin: M_CTRL_RESP, ids: IDS_FULL, payload: P::Control(2) }, false);
c15_new!(c15_new_verbose_u16, Shape { storage: false, htyp: H_EXT_BE, msin: M_LOG_INFO_V, ids: IDS_FULL, payload: P::Verbose(&[arg(AK::U(2))]) }, false);
c15_new!(c15_new_verbose_two_args, Shape { storage: false, htyp: H_EXT_BE, msin: M_LOG_INFO_V, ids: IDS_FULL, payload: P::Verbose(&[arg(AK::U(1)), arg(AK::Bool)]) }, false);
c15_new!(c15_new_verbose_string, Shape { storage: false, htyp: H_ALL_LE, msin: M_APP_V, ids: IDS_FULL, payload: P::Verbose(&[arg(AK::Str)]) }, true);
c15_new!(c15_new_nettrace_le, Shape { storage: false, htyp: H_EXT_LE, msin: M_NW_CAN_V, ids: IDS_FULL, payload: P::NetTrace(&[2, 1]) }, false);
// verbose-kind payloads with zero arguments / slices: the verbose flag follows the payload KIND, not the count
c15_new!(c15_new_verbose_empty, Shape { storage: false, htyp: H_EXT_LE, msin: M_LOG_INFO_V, ids: IDS_FULL, payload: P::Verbose(&[]) }, false);
c15_new!(c15_new_nettrace_empty, Shape { storage: false, htyp: H_EXT_BE, msin: M_NW_CAN_V, ids: IDS_FULL, payload: P::NetTrace(&[]) }, false);
c15_new!(c15_new_nettrace_be, Shape { storage: false, htyp: H_EXT_BE, msin: M_NW_CAN_V, ids: IDS_FULL, payload: P::NetTrace(&[3]) }, false);

/// An argument typed bool / f32 / f64 that carries a value of another kind
/// fails the validity check; with the matching kind it passes.
#[kani::proof]
#[kani::unwind(4)]
fn c15_valid_rejects_mismatched_values() {
    let which: u8 = kani::any();
    let value = match which % 15 {
        0 => Value::Bool(kani::any()),
        1 => Value::U8(kani::any()),
        2 => Value::U16(kani::any()),
        3 => Value::U32(kani::any()),
        4 => Value::U64(kani::any()),
        5 => Value::U128(kani::any()),
        6 => Value::I8(kani::any()),
        7 => Value::I16(kani::any()),
        8 => Value::I32(kani::any()),
        9 => Value::I64(kani::any()),
        10 => Value::I128(kani::any()),
        11 => Value::F32(kani::any()),
        12 => Value::F64(kani::any()),
        13 => Value::StringVal(String::new()),
        _ => Value::Raw(Vec::new()),
    };
    let k: u8 = kani::any();
    let kind = match k % 3 {
        0 => TypeInfoKind::Bool,
        1 => TypeInfoKind::Float(FloatWidth::Width32),
        _ => TypeInfoKind::Float(FloatWidth::Width64),
    };
    let a = Argument {
        type_info: TypeInfo { kind, coding: StringCoding::ASCII, has_variable_info: kani::any(), has_trace_info: kani::any() },
        name: None,
        unit: None,
        fixed_point: None,
        value,
    };
    let matching = (k % 3 == 0 && which % 15 == 0) || (k % 3 == 1 && which % 15 == 11) || (k % 3 == 2 && which % 15 == 12);
    assert!(a.valid() == matching, "validity check");
    kani::cover!(matching);
    kani::cover!(!matching && k % 3 == 1 && which % 15 == 12, "f32 kind with f64 value");
    std::mem::forget(a);
}

// ---------------------------------------------------------------------------
// "... and parses back to an equal message": Message::new(conf) -> as_bytes -> dlt_message
// in one query per configuration shape (all data symbolic); the serialisation is also
// compared with the reference encoding of the configuration.
// ---------------------------------------------------------------------------
fn new_parses_back(s: &Shape) {
    use dlt_core::parse::{dlt_message, ParsedMessage};
    let bt = build(s, 0, None, None);
    let h = &bt.h;
    let big = s.htyp & HTYP_MSBF != 0;
    let payload = match s.payload {
        P::Verbose(shapes) => {
            let mut v = Vec::with_capacity(shapes.len());
            let mut i = 0;
            while i < shapes.len() {
                v.push(make_arg(&shapes[i], &bt.args[i]));
                i += 1;
            }
            PayloadContent::Verbose(v)
        }
        P::NonVerbose(extra) => PayloadContent::NonVerbose(bt.nv_id, vec_of(&bt.nv_data, extra)),
        P::Control(extra) => PayloadContent::ControlMsg(ControlType::from_value(bt.nv_id as u8), vec_of(&bt.nv_data, extra)),
        P::NetTrace(lens) => {
            let mut v = Vec::with_capacity(lens.len());
            let mut i = 0;
            while i < lens.len() {
                v.push(vec_of(&bt.slices[i], lens[i]));
                i += 1;
            }
            PayloadContent::NetworkTrace(v)
        }
    };
    let conf = MessageConfig {
        version: s.htyp >> 5,
        counter: h.mcnt,
        endianness: if big { Endianness::Big } else { Endianness::Little },
        ecu_id: if s.htyp & HTYP_WEID != 0 { Some(id_string(&h.ecu, h.ecu_len)) } else { None },
        session_id: if s.htyp & HTYP_WSID != 0 { Some(h.session) } else { None },
        timestamp: if s.htyp & HTYP_WTMS != 0 { Some(h.timestamp) } else { None },
        payload,
        extended_header_info: if s.htyp & HTYP_UEH != 0 {
            Some(ExtendedHeaderConfig { message_type: crate::c14::ref_message_type(s.msin), app_id: id_string(&h.apid, h.apid_len), context_id: id_string(&h.ctid, h.ctid_len) })
        } else {
            None
        },
    };
    let m = Message::new(conf, None);
    let bytes = m.as_bytes();
    assert!(bytes.len() == m.byte_len() as usize, "byte_len differs from the serialised length");
    assert!(bytes.len() == bt.msg_end, "serialised length differs from the reference encoding of the configuration");
    let mut b = Buf::<MAXMSG>::new();
    b.put_bytes(&bytes, bt.msg_end);
    let mut i = 0;
    while i < bt.msg_end {
        assert!(b.b[i] == bt.buf.b[i], "serialisation of the built message differs from the reference encoding of the configuration");
        i += 1;
    }
    let r = dlt_message(b.slice(), None, false);
    match &r {
        Ok((rest, ParsedMessage::Item(mm))) => {
            assert!(rest.is_empty(), "bytes left over");
            check_headers(mm, false, s.htyp, s.msin, &bt.h, bt.payload_len as u16);
            check_payload(mm, s, &bt);
            kani::cover!(true, "built message parses back");
        }
        _ => assert!(false, "built message does not parse back"),
    }
    std::mem::forget(r);
    std::mem::forget(bytes);
    std::mem::forget(m);
}

macro_rules! c15_back {
    ($name:ident, $shape:expr) => {
        #[kani::proof]
        #[kani::unwind(100)]
        #[kani::stub(std::fmt::format, crate::models::fmt_format_stub)]
        #[kani::stub(core::str::from_utf8, crate::models::from_utf8_stub)]
        fn $name() {
            let s: Shape = $shape;
            new_parses_back(&s);
        }
    };
}
c15_back!(c15_back_nonverbose_noext, Shape { storage: false, htyp: H_MIN, msin: 0, ids: IDS_FULL, payload: P::NonVerbose(3) });
c15_back!(c15_back_control, Shape { storage: false, htyp: H_EXT_LE, msin: M_CTRL_RESP, ids: IDS_FULL, payload: P::Control(2) });
c15_back!(c15_back_nettrace_be, Shape { storage: false, htyp: H_EXT_BE, msin: M_NW_CAN_V, ids: IDS_FULL, payload: P::NetTrace(&[3]) });
c15_back!(c15_back_nettrace_empty, Shape { storage: false, htyp: H_EXT_LE, msin: M_NW_CAN_V, ids: IDS_FULL, payload: P::NetTrace(&[]) });
c15_back!(c15_back_verbose_empty, Shape { storage: false, htyp: H_ALL_BE, msin: M_LOG_INFO_V, ids: IDS_SHORT, payload: P::Verbose(&[]) });
c15_back!(c15_back_verbose_bool, Shape { storage: false, htyp: H_EXT_LE, msin: M_LOG_INFO_V, ids: IDS_FULL, payload: P::Verbose(&[arg(AK::Bool)]) });

/// add_storage_header with boundary ECU ids: an EMPTY header ECU id is still the header's id (the default "ECU" is
/// used only when the header has no ECU id at all); a full 4-byte id is copied unchanged.
#[kani::proof]
#[kani::unwind(12)]
fn c15_storage_header_boundary_ecu_ids() {
    let secs: u32 = kani::any();
    let micros: u32 = kani::any();
    let mut k = 0;
    while k < 3 {
        let ecu: Option<String> = match k {
            0 => Some(String::new()),
            1 => Some(String::from("Ec7_")),
            _ => None,
        };
        let conf = MessageConfig {
            version: 1,
            counter: kani::any(),
            endianness: Endianness::Little,
            ecu_id: ecu,
            session_id: None,
            timestamp: None,
            payload: PayloadContent::NonVerbose(kani::any(), Vec::new()),
            extended_header_info: None,
        };
        let m = Message::new(conf, None).add_storage_header(Some(DltTimeStamp { seconds: secs, microseconds: micros }));
        match &m.storage_header {
            Some(sh) => {
                assert!(sh.timestamp.seconds == secs && sh.timestamp.microseconds == micros, "storage time");
                let want: &[u8] = match k {
                    0 => b"",
                    1 => b"Ec7_",
                    _ => b"ECU",
                };
                assert!(sh.ecu_id.as_bytes() == want, "storage ECU id is not the header ECU id (or the default id when the header has none)");
            }
            None => assert!(false, "no storage header added"),
        }
        std::mem::forget(m);
        k += 1;
    }
    kani::cover!(true);
}
