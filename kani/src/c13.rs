//! C13 — non-verbose argument construction decodes packed fields in order or
//! refuses. Type lists are concrete per harness; payload bytes, payload
//! length and byte order are symbolic.
use crate::models::utf8_valid_up_to;
use dlt_core::dlt::*;
use dlt_core::parse::construct_arguments;

pub fn ti(kind: TypeInfoKind) -> TypeInfo {
    TypeInfo { kind, coding: StringCoding::UTF8, has_variable_info: false, has_trace_info: false }
}

fn rd(big: bool, b: &[u8]) -> u128 {
    // unsigned value of b in the given byte order
    let mut v: u128 = 0;
    let n = b.len();
    let mut i = 0;
    while i < n {
        let byte = if big { b[i] } else { b[n - 1 - i] };
        v = (v << 8) | byte as u128;
        i += 1;
    }
    v
}

/// Expected outcome of one field at `off`; returns Some(new_off) if the field
/// can be decoded and `arg` (if given) carries exactly the decoded value.
/// `strict` = property's listed kinds; fixed-point kinds are not compared.
fn field(big: bool, t: &TypeInfo, data: &[u8], off: usize, arg: Option<&Argument>) -> Result<usize, ()> {
    let len = data.len();
    match t.kind {
        TypeInfoKind::Bool => {
            if off + 1 > len { return Err(()); }
            if let Some(a) = arg { assert!(a.value == Value::Bool(data[off])); }
            Ok(off + 1)
        }
        TypeInfoKind::Unsigned(w) => {
            let n = w as usize / 8;
            if off + n > len { return Err(()); }
            let v = rd(big, &data[off..off + n]);
            if let Some(a) = arg {
                let ok = match a.value {
                    Value::U8(x) => n == 1 && x as u128 == v,
                    Value::U16(x) => n == 2 && x as u128 == v,
                    Value::U32(x) => n == 4 && x as u128 == v,
                    Value::U64(x) => n == 8 && x as u128 == v,
                    Value::U128(x) => n == 16 && x == v,
                    _ => false,
                };
                assert!(ok, "unsigned value differs from the packed field");
            }
            Ok(off + n)
        }
        TypeInfoKind::Signed(w) => {
            let n = w as usize / 8;
            if off + n > len { return Err(()); }
            let v = rd(big, &data[off..off + n]);
            if let Some(a) = arg {
                let ok = match a.value {
                    Value::I8(x) => n == 1 && x as u8 as u128 == v,
                    Value::I16(x) => n == 2 && x as u16 as u128 == v,
                    Value::I32(x) => n == 4 && x as u32 as u128 == v,
                    Value::I64(x) => n == 8 && x as u64 as u128 == v,
                    Value::I128(x) => n == 16 && x as u128 == v,
                    _ => false,
                };
                assert!(ok, "signed value differs from the packed field");
            }
            Ok(off + n)
        }
        TypeInfoKind::Float(w) => {
            let n = w as usize / 8;
            if off + n > len { return Err(()); }
            let v = rd(big, &data[off..off + n]);
            if let Some(a) = arg {
                let ok = match a.value {
                    Value::F32(x) => n == 4 && x.to_bits() as u128 == v,
                    Value::F64(x) => n == 8 && x.to_bits() as u128 == v,
                    _ => false,
                };
                assert!(ok, "float bits differ from the packed field");
            }
            Ok(off + n)
        }
        TypeInfoKind::StringType | TypeInfoKind::Raw => {
            if off + 2 > len { return Err(()); }
            let l = rd(big, &data[off..off + 2]) as usize;
            if off + 2 + l > len { return Err(()); }
            let body = &data[off + 2..off + 2 + l];
            if t.kind == TypeInfoKind::StringType {
                let (_, valid) = utf8_valid_up_to(body);
                if !valid { return Err(()); }
                if let Some(a) = arg {
                    match &a.value {
                        Value::StringVal(s) => {
                            assert!(s.len() == l);
                            let sb = s.as_bytes();
                            let mut i = 0;
                            while i < l { assert!(sb[i] == body[i]); i += 1; }
                        }
                        _ => assert!(false, "string type without string value"),
                    }
                }
            } else if let Some(a) = arg {
                match &a.value {
                    Value::Raw(r) => {
                        assert!(r.len() == l);
                        let mut i = 0;
                        while i < l { assert!(r[i] == body[i]); i += 1; }
                    }
                    _ => assert!(false, "raw type without raw value"),
                }
            }
            Ok(off + 2 + l)
        }
        TypeInfoKind::SignedFixedPoint(_) | TypeInfoKind::UnsignedFixedPoint(_) => Err(()),
    }
}

/// `varlen_at`: offsets (known statically for the list) of 16-bit length
/// fields that are assumed <= 3 so that the loops stay within the unwind bound.
fn run<const N: usize>(types: Vec<TypeInfo>, var_fields: usize) {
    run_lit::<N>(types, var_fields, None);
}

/// `lit`: Some((offset, declared length, big endian)) makes the 16-bit length field of the
/// string/raw entry at `offset` a literal in the given byte order (contents stay symbolic).
/// With a symbolic declared length the copy `data[..].to_vec()` has a symbolic allocation
/// size and the string lists exceed 16 GB.
fn run_lit<const N: usize>(types: Vec<TypeInfo>, var_fields: usize, lit: Option<(usize, u16, bool)>) {
    let raw: [u8; N] = kani::any();
    let mut data = [0u8; N];
    let mut i = 0;
    while i < N {
        data[i] = raw[i];
        i += 1;
    }
    let len: usize = kani::any();
    kani::assume(len <= N);
    let big: bool = match lit {
        Some((off, l, b)) => {
            let bytes = if b { l.to_be_bytes() } else { l.to_le_bytes() };
            data[off] = bytes[0];
            data[off + 1] = bytes[1];
            b
        }
        None => kani::any(),
    };
    let d = &data[..len];
    // bound the declared lengths of string/raw fields (walk like the oracle)
    {
        let mut off = 0usize;
        let mut i = 0;
        while i < types.len() {
            let t = &types[i];
            match t.kind {
                TypeInfoKind::StringType | TypeInfoKind::Raw => {
                    if off + 2 <= len {
                        let l = rd(big, &d[off..off + 2]) as usize;
                        kani::assume(l <= 3 || off + 2 + l > len);
                        if off + 2 + l > len { break; }
                        off += 2 + l;
                    } else { break; }
                }
                _ => {
                    let n = match t.kind { TypeInfoKind::Bool => 1, _ => t.type_width() / 8 };
                    if off + n > len { break; }
                    off += n;
                }
            }
            i += 1;
        }
    }
    let _ = var_fields;
    let e = if big { Endianness::Big } else { Endianness::Little };
    let r = construct_arguments(e, &types, d);
    // oracle walk
    let mut off = 0usize;
    let mut expect_ok = true;
    let mut i = 0;
    while i < types.len() {
        match field(big, &types[i], d, off, None) {
            Ok(o) => off = o,
            Err(()) => { expect_ok = false; break; }
        }
        i += 1;
    }
    match r {
        Ok(args) => {
            assert!(expect_ok, "arguments returned although the payload is too short or a string is not UTF-8");
            assert!(args.len() == types.len(), "one argument per type");
            let mut off = 0usize;
            let mut i = 0;
            while i < types.len() {
                let a = &args[i];
                assert!(a.type_info == types[i], "argument carries its type");
                assert!(a.name.is_none() && a.unit.is_none() && a.fixed_point.is_none());
                off = field(big, &types[i], d, off, Some(a)).unwrap();
                i += 1;
            }
            kani::cover!(off < len, "trailing bytes ignored");
            kani::cover!(off == len, "exact payload");
            std::mem::forget(args);
        }
        Err(_) => {
            assert!(!expect_ok, "refused a payload that is long enough and well-formed");
            kani::cover!(true, "payload refused");
        }
    }
    std::mem::forget(types);
}

macro_rules! c13 {
    ($name:ident, $n:expr, $uw:expr, [$($k:expr),*]) => {
        #[kani::proof]
        #[kani::unwind($uw)]
        #[kani::stub(std::fmt::format, crate::models::fmt_format_stub)]
        #[kani::stub(core::str::from_utf8, crate::models::from_utf8_stub)]
        fn $name() { run::<$n>(vec![$(ti($k)),*], 0); }
    };
}

use FloatWidth::*;
use TypeInfoKind::*;
use TypeLength::*;

c13!(c13_bool, 3, 5, [Bool]);
c13!(c13_u8, 3, 5, [Unsigned(BitLength8)]);
c13!(c13_u16, 4, 6, [Unsigned(BitLength16)]);
c13!(c13_u32, 6, 8, [Unsigned(BitLength32)]);
c13!(c13_u64, 10, 12, [Unsigned(BitLength64)]);
c13!(c13_u128, 18, 20, [Unsigned(BitLength128)]);
c13!(c13_s8, 3, 5, [Signed(BitLength8)]);
c13!(c13_s16, 4, 6, [Signed(BitLength16)]);
c13!(c13_s32, 6, 8, [Signed(BitLength32)]);
c13!(c13_s64, 10, 12, [Signed(BitLength64)]);
c13!(c13_s128, 18, 20, [Signed(BitLength128)]);
c13!(c13_f32, 6, 8, [Float(Width32)]);
c13!(c13_f64, 10, 12, [Float(Width64)]);
macro_rules! c13_lit {
    ($name:ident, $n:expr, $uw:expr, [$($k:expr),*], $off:expr, $l:expr, $big:expr) => {
        #[kani::proof]
        #[kani::unwind($uw)]
        #[kani::stub(std::fmt::format, crate::models::fmt_format_stub)]
        #[kani::stub(core::str::from_utf8, crate::models::from_utf8_stub)]
        fn $name() { run_lit::<$n>(vec![$(ti($k)),*], 0, Some(($off, $l, $big))); }
    };
}
// string lists: declared length literal (0, 2, 3), contents / payload length symbolic, one byte order each
c13_lit!(c13_string_len2_be, 6, 8, [StringType], 0, 2, true);
c13_lit!(c13_string_len3_le, 6, 8, [StringType], 0, 3, false);
c13_lit!(c13_string_len0_le, 4, 6, [StringType], 0, 0, false);
c13!(c13_raw, 7, 9, [Raw]);
c13!(c13_u16_raw, 9, 11, [Unsigned(BitLength16), Raw]);
c13_lit!(c13_string_u32, 9, 11, [StringType, Unsigned(BitLength32)], 0, 2, false);
c13!(c13_bool_f64, 11, 13, [Bool, Float(Width64)]);
// (Raw followed by String: the string would sit at a symbolic offset with a symbolic declared length: > 16 GB; dropped)

c13_lit!(c13_u8_string_u32, 10, 12, [Unsigned(BitLength8), StringType, Unsigned(BitLength32)], 1, 2, true);
c13!(c13_s16_s16_s16, 8, 10, [Signed(BitLength16), Signed(BitLength16), Signed(BitLength16)]);
c13!(c13_empty_list, 3, 5, []);
c13!(c13_u128_u8, 19, 21, [Unsigned(BitLength128), Unsigned(BitLength8)]);
c13!(c13_s64_u16, 12, 14, [Signed(BitLength64), Unsigned(BitLength16)]);

/// Fixed-point kinds are outside the property's list: only "returns, never
/// panics" is asserted (kind and width literal per harness).
fn fixed_point_no_panic<const N: usize>(k: TypeInfoKind) {
    let data: [u8; N] = kani::any();
    let len: usize = kani::any();
    kani::assume(len <= N);
    let big: bool = kani::any();
    let types = vec![ti(k)];
    let e = if big { Endianness::Big } else { Endianness::Little };
    let r = construct_arguments(e, &types, &data[..len]);
    // (the crate slices only `width/8` bytes for a fixed-point signal, which is never enough for
    // quantization + offset + value: it always refuses; fixed-point kinds are outside the property)
    kani::cover!(r.is_err());
    std::mem::forget(r);
    std::mem::forget(types);
}

macro_rules! c13_fp {
    ($name:ident, $n:expr, $uw:expr, $k:expr) => {
        #[kani::proof]
        #[kani::unwind($uw)]
        #[kani::stub(std::fmt::format, crate::models::fmt_format_stub)]
        fn $name() { fixed_point_no_panic::<$n>($k); }
    };
}
c13_fp!(c13_fixed_point_s32_no_panic, 6, 8, SignedFixedPoint(Width32));
c13_fp!(c13_fixed_point_u32_no_panic, 6, 8, UnsignedFixedPoint(Width32));
c13_fp!(c13_fixed_point_s64_no_panic, 10, 12, SignedFixedPoint(Width64));
c13_fp!(c13_fixed_point_u64_no_panic, 10, 12, UnsignedFixedPoint(Width64));
