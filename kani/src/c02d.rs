//! C02 decoding half, header units: fully symbolic bytes (control included)
//! through the header parsers, compared with the reference decoder's verdict
//! and field values. Ids obey the C19 rule (cut at first NUL, longest valid
//! UTF-8 prefix).
use crate::models::utf8_valid_up_to;
use crate::refcodec::*;
use dlt_core::dlt::*;
use dlt_core::parse::verif_hooks as ph;

/// expected text of a 4-byte id field: returns length of the clean prefix
fn ref_id_len(f: &[u8]) -> usize {
    let mut cut = 4;
    let mut i = 0;
    while i < 4 {
        if f[i] == 0 {
            cut = i;
            break;
        }
        i += 1;
    }
    utf8_valid_up_to(&f[..cut]).0
}

fn id_matches(s: &str, f: &[u8]) -> bool {
    let n = ref_id_len(f);
    let sb = s.as_bytes();
    if sb.len() != n {
        return false;
    }
    let mut i = 0;
    while i < n {
        if sb[i] != f[i] {
            return false;
        }
        i += 1;
    }
    true
}

/// Standard header: 16 symbolic bytes, symbolic available length 0..16.
#[kani::proof]
#[kani::unwind(18)]
#[kani::stub(std::fmt::format, crate::models::fmt_format_stub)]
#[kani::stub(core::str::from_utf8, crate::models::from_utf8_stub)]
fn c02d_standard_header_all_bytes() {
    std_header_body(None);
}

/// Same with the full 16 bytes available (no truncation): quick tier.
#[kani::proof]
#[kani::unwind(18)]
#[kani::stub(std::fmt::format, crate::models::fmt_format_stub)]
#[kani::stub(core::str::from_utf8, crate::models::from_utf8_stub)]
fn c02d_standard_header_full_length() {
    std_header_body(Some(16));
}

fn std_header_body(fixed: Option<usize>) {
    let buf: [u8; 16] = kani::any();
    let len: usize = match fixed { Some(n) => n, None => kani::any() };
    kani::assume(len <= 16);
    let input = &buf[..len];
    let b = buf[0];
    let weid = b & HTYP_WEID != 0;
    let wsid = b & HTYP_WSID != 0;
    let wtms = b & HTYP_WTMS != 0;
    let std_len = 4 + 4 * (weid as usize) + 4 * (wsid as usize) + 4 * (wtms as usize);
    let all_len = std_len + 10 * ((b & HTYP_UEH != 0) as usize);
    let declared = u16::from_be_bytes([buf[2], buf[3]]) as usize;
    match ph::standard_header(input) {
        Ok((rest, h)) => {
            assert!(len >= std_len, "header returned from fewer bytes than its fields occupy");
            assert!(declared >= all_len, "accepted a declared length smaller than the headers");
            assert!(rest.len() == len - std_len);
            assert!(h.version == b >> 5);
            assert!((h.endianness == Endianness::Big) == (b & HTYP_MSBF != 0));
            assert!(h.has_extended_header == (b & HTYP_UEH != 0));
            assert!(h.message_counter == buf[1]);
            assert!(h.payload_length as usize == declared - all_len);
            let mut off = 4;
            match &h.ecu_id {
                Some(e) => {
                    assert!(weid && id_matches(e, &buf[off..off + 4]));
                    off += 4;
                }
                None => assert!(!weid),
            }
            match h.session_id {
                Some(s) => {
                    assert!(wsid && s == u32::from_be_bytes([buf[off], buf[off + 1], buf[off + 2], buf[off + 3]]));
                    off += 4;
                }
                None => assert!(!wsid),
            }
            match h.timestamp {
                Some(t) => assert!(wtms && t == u32::from_be_bytes([buf[off], buf[off + 1], buf[off + 2], buf[off + 3]])),
                None => assert!(!wtms),
            }
            kani::cover!(weid && wsid && wtms, "all optional fields");
            kani::cover!(!weid && !wsid && !wtms, "no optional fields");
            kani::cover!(weid && ref_id_len(&buf[4..8]) < 4, "short / salvaged ECU id");
            std::mem::forget(h);
        }
        Err(nom::Err::Incomplete(n)) => {
            assert!(len < std_len, "incomplete although all header fields are available");
            if let nom::Needed::Size(k) = n {
                assert!(k.get() >= 1 && k.get() <= std_len - len, "hint exceeds the missing header bytes");
            }
            if fixed.is_none() {
                kani::cover!(len == 0, "empty input incomplete");
                kani::cover!(len == 15, "15 bytes incomplete");
            }
        }
        Err(_) => {
            assert!(len >= std_len && declared < all_len, "hard error other than declared length < headers");
            kani::cover!(true, "rejected: declared length smaller than headers");
        }
    }
}

/// Extended header: 10 symbolic bytes (all MSIN, NOAR, arbitrary id bytes),
/// symbolic available length.
#[kani::proof]
#[kani::unwind(12)]
#[kani::stub(std::fmt::format, crate::models::fmt_format_stub)]
#[kani::stub(core::str::from_utf8, crate::models::from_utf8_stub)]
fn c02d_extended_header_all_bytes() {
    ext_header_body(None);
}

/// Same with all 12 bytes available: quick tier.
#[kani::proof]
#[kani::unwind(14)]
#[kani::stub(std::fmt::format, crate::models::fmt_format_stub)]
#[kani::stub(core::str::from_utf8, crate::models::from_utf8_stub)]
fn c02d_extended_header_full_length() {
    ext_header_body(Some(12));
}

fn ext_header_body(fixed: Option<usize>) {
    let buf: [u8; 12] = kani::any();
    let len: usize = match fixed { Some(n) => n, None => kani::any() };
    kani::assume(len <= 12);
    let input = &buf[..len];
    match ph::extended_header(input) {
        Ok((rest, eh)) => {
            assert!(len >= 10);
            assert!(rest.len() == len - 10);
            assert!(eh.verbose == (buf[0] & 1 == 1));
            assert!(eh.argument_count == buf[1]);
            assert!(eh.message_type == crate::c14::ref_message_type(buf[0]));
            assert!(id_matches(&eh.application_id, &buf[2..6]));
            assert!(id_matches(&eh.context_id, &buf[6..10]));
            kani::cover!(ref_id_len(&buf[2..6]) == 0, "empty application id");
            kani::cover!(ref_id_len(&buf[6..10]) == 2 && buf[8] != 0, "context id cut by invalid UTF-8");
            std::mem::forget(eh);
        }
        Err(nom::Err::Incomplete(n)) => {
            assert!(len < 10);
            if let nom::Needed::Size(k) = n {
                assert!(k.get() >= 1 && k.get() <= 10 - len);
            }
            if fixed.is_none() {
                kani::cover!(len == 9);
            }
        }
        Err(_) => assert!(false, "extended header hard error"),
    }
}

/// Storage header at offset 0 (search is C06's subject): 16 symbolic bytes
/// after a literal pattern, symbolic available length.
#[kani::proof]
#[kani::unwind(20)]
#[kani::stub(std::fmt::format, crate::models::fmt_format_stub)]
#[kani::stub(core::str::from_utf8, crate::models::from_utf8_stub)]
#[kani::stub(dlt_core::parse::forward_to_next_storage_header, crate::models::forward_stub)]
fn c02d_storage_header_fields() {
    let d: [u8; 14] = kani::any();
    let buf = [0x44u8, 0x4C, 0x54, 0x01, d[0], d[1], d[2], d[3], d[4], d[5], d[6], d[7], d[8], d[9], d[10], d[11], d[12], d[13]];
    let len: usize = kani::any();
    kani::assume(len <= 18);
    match ph::storage_header(&buf[..len]) {
        Ok((rest, Some((sh, skipped)))) => {
            assert!(len >= 16);
            assert!(skipped == 0);
            assert!(rest.len() == len - 16);
            assert!(sh.timestamp.seconds == u32::from_le_bytes([d[0], d[1], d[2], d[3]]));
            assert!(sh.timestamp.microseconds == u32::from_le_bytes([d[4], d[5], d[6], d[7]]));
            assert!(id_matches(&sh.ecu_id, &d[8..12]));
            kani::cover!(len == 18);
            std::mem::forget(sh);
        }
        Ok((_, None)) => assert!(false, "pattern at offset 0 not found"),
        Err(nom::Err::Incomplete(n)) => {
            assert!(len < 16);
            if let nom::Needed::Size(k) = n {
                assert!(k.get() >= 1 && k.get() <= 16 - len);
            }
            kani::cover!(len == 15);
        }
        Err(_) => assert!(false, "storage header hard error"),
    }
}
