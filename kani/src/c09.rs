//! C09 — filtering drops exactly the messages that fail the configured criteria.
use dlt_core::dlt::*;
use dlt_core::filtering::{DltFilterConfig, ProcessedDltFilterConfig};
use dlt_core::parse::verif_hooks as ph;
use dlt_core::filtering::verif_hooks::HashSet; // vector-backed model of the id sets (DESIGN.md 9.7)

fn any_level() -> LogLevel {
    match kani::any::<u8>() % 7 {
        0 => LogLevel::Fatal,
        1 => LogLevel::Error,
        2 => LogLevel::Warn,
        3 => LogLevel::Info,
        4 => LogLevel::Debug,
        5 => LogLevel::Verbose,
        _ => LogLevel::Invalid(kani::any()),
    }
}

fn level_rank(l: &LogLevel) -> Option<u8> {
    match l {
        LogLevel::Fatal => Some(1),
        LogLevel::Error => Some(2),
        LogLevel::Warn => Some(3),
        LogLevel::Info => Some(4),
        LogLevel::Debug => Some(5),
        LogLevel::Verbose => Some(6),
        LogLevel::Invalid(_) => None,
    }
}

pub fn any_message_type() -> MessageType {
    match kani::any::<u8>() % 5 {
        0 => MessageType::Log(any_level()),
        1 => MessageType::ApplicationTrace(match kani::any::<u8>() % 6 {
            0 => ApplicationTraceType::Variable,
            1 => ApplicationTraceType::FunctionIn,
            2 => ApplicationTraceType::FunctionOut,
            3 => ApplicationTraceType::State,
            4 => ApplicationTraceType::Vfb,
            _ => ApplicationTraceType::Invalid(kani::any()),
        }),
        2 => MessageType::NetworkTrace(match kani::any::<u8>() % 8 {
            0 => NetworkTraceType::Ipc,
            1 => NetworkTraceType::Can,
            2 => NetworkTraceType::Flexray,
            3 => NetworkTraceType::Most,
            4 => NetworkTraceType::Ethernet,
            5 => NetworkTraceType::Someip,
            6 => NetworkTraceType::Invalid,
            _ => NetworkTraceType::UserDefined(kani::any()),
        }),
        3 => MessageType::Control(match kani::any::<u8>() % 3 {
            0 => ControlType::Request,
            1 => ControlType::Response,
            _ => ControlType::Unknown(kani::any()),
        }),
        _ => MessageType::Unknown((kani::any(), kani::any())),
    }
}

/// The level rule of the property: dropped iff a log message with a valid
/// level less severe than the (valid) minimum.
fn ref_skip(mt: &MessageType, min: &LogLevel) -> Option<bool> {
    let m = level_rank(min)?; // only valid minimum levels are specified
    Some(match mt {
        MessageType::Log(l) => match level_rank(l) {
            Some(r) => r > m,
            None => false,
        },
        _ => false,
    })
}

/// skip_with_level: all message types x all levels.
#[kani::proof]
fn c09_skip_with_level_all() {
    let mt = any_message_type();
    let min = any_level();
    let eh = ExtendedHeader {
        verbose: kani::any(),
        argument_count: kani::any(),
        message_type: mt,
        application_id: String::new(),
        context_id: String::new(),
    };
    let r = eh.skip_with_level(min); // never panics, also for Invalid minimum levels
    if let Some(expect) = ref_skip(&eh.message_type, &min) {
        assert!(r == expect, "level rule");
        kani::cover!(expect, "dropped by level");
        kani::cover!(!expect && matches!(eh.message_type, MessageType::Log(LogLevel::Invalid(_))), "invalid level kept");
        kani::cover!(!expect && !matches!(eh.message_type, MessageType::Log(_)), "non-log kept");
    }
    std::mem::forget(eh);
}

/// Fixed hasher keys: `RandomState::new` reads OS randomness (FFI).
pub fn random_state_stub() -> std::collections::hash_map::RandomState {
    unsafe { core::mem::transmute::<[u64; 2], std::collections::hash_map::RandomState>([0x0706050403020100, 0x0f0e0d0c0b0a0908]) }
}

/// DltFilterConfig -> ProcessedDltFilterConfig (owned and borrowed): all
/// Option<u8> levels; counts copied; None / Some(empty) preserved. Presence of
/// the three id lists is enumerated concretely (symbolic presence of heap
/// objects ran out of memory), everything else is symbolic.
fn conversion(combo: u8, by_ref: bool) {
    let lvl: Option<u8> = kani::any();
    let app_some = combo & 1 != 0;
    let ecu_some = combo & 2 != 0;
    let ctx_some = combo & 4 != 0;
    let ac: i64 = kani::any();
    let cc: i64 = kani::any();
    let cfg = DltFilterConfig {
        min_log_level: lvl,
        app_ids: if app_some { Some(Vec::new()) } else { None },
        ecu_ids: if ecu_some { Some(Vec::new()) } else { None },
        context_ids: if ctx_some { Some(Vec::new()) } else { None },
        app_id_count: ac,
        context_id_count: cc,
    };
    let p: ProcessedDltFilterConfig = if by_ref { ProcessedDltFilterConfig::from(&cfg) } else { ProcessedDltFilterConfig::from(cfg) };
    let expect = match lvl {
        Some(1) => Some(LogLevel::Fatal),
        Some(2) => Some(LogLevel::Error),
        Some(3) => Some(LogLevel::Warn),
        Some(4) => Some(LogLevel::Info),
        Some(5) => Some(LogLevel::Debug),
        Some(6) => Some(LogLevel::Verbose),
        _ => None, // numeric levels outside 1..6 mean no level filtering
    };
    assert!(p.min_log_level == expect, "minimum level conversion");
    assert!(p.app_id_count == ac && p.context_id_count == cc, "counts copied");
    assert!(p.app_ids.is_some() == app_some && p.ecu_ids.is_some() == ecu_some && p.context_ids.is_some() == ctx_some, "set presence preserved");
    if let Some(s) = &p.app_ids { assert!(s.len() == 0); }
    if let Some(s) = &p.ecu_ids { assert!(s.len() == 0); }
    if let Some(s) = &p.context_ids { assert!(s.len() == 0); }
    kani::cover!(lvl == Some(0) && expect.is_none(), "level 0 means no level filter");
    kani::cover!(lvl == Some(255), "level 255");
    std::mem::forget(p);
}

#[kani::proof]
#[kani::unwind(10)]
#[kani::stub(std::hash::RandomState::new, random_state_stub)]
fn c09_config_conversion_owned() {
    let mut c = 0u8;
    while c < 8 {
        conversion(c, false);
        c += 1;
    }
}

#[kani::proof]
#[kani::unwind(10)]
#[kani::stub(std::hash::RandomState::new, random_state_stub)]
fn c09_config_conversion_borrowed() {
    let mut c = 0u8;
    while c < 8 {
        conversion(c, true);
        c += 1;
    }
}

// ---- filtered_out decision table ---------------------------------------------
// Real HashSet lookups are out of reach (measured: one concrete-string lookup in
// a one-element set did not finish in 15 min of symbolic execution of hashbrown),
// and Kani rejects a stub for the generic `HashSet::contains`. Feature `verif_hooks`
// therefore swaps the set type of ProcessedDltFilterConfig for a vector-backed model
// with the same contains / len / from_iter contract (hook in src/filtering.rs);
// filtered_out, skip_with_level and the conversions are the real code.

/// The decision procedure for every combination of criteria with absent/empty
/// sets, all message types and levels, arbitrary i64 id counts.
#[kani::proof]
#[kani::unwind(6)]
#[kani::stub(std::hash::RandomState::new, random_state_stub)]
fn c09_filtered_out_decision_table() {
    let has_cfg: bool = kani::any();
    let has_ext: bool = kani::any();
    let has_ecu: bool = kani::any();
    let min: Option<u8> = kani::any();
    let min_level = match min {
        Some(1) => Some(LogLevel::Fatal),
        Some(2) => Some(LogLevel::Error),
        Some(3) => Some(LogLevel::Warn),
        Some(4) => Some(LogLevel::Info),
        Some(5) => Some(LogLevel::Debug),
        Some(6) => Some(LogLevel::Verbose),
        _ => None,
    };
    let app_some: bool = kani::any();
    let ctx_some: bool = kani::any();
    let ecu_some: bool = kani::any();
    let cfg = ProcessedDltFilterConfig {
        min_log_level: min_level,
        app_ids: if app_some { Some(HashSet::new()) } else { None },
        ecu_ids: if ecu_some { Some(HashSet::new()) } else { None },
        context_ids: if ctx_some { Some(HashSet::new()) } else { None },
        app_id_count: kani::any(),
        context_id_count: kani::any(),
    };
    let eh = ExtendedHeader {
        verbose: kani::any(),
        argument_count: kani::any(),
        message_type: any_message_type(),
        application_id: String::new(),
        context_id: String::new(),
    };
    let ecu = String::new();
    let r = ph::filtered_out(
        if has_ext { Some(&eh) } else { None },
        if has_cfg { Some(&cfg) } else { None },
        if has_ecu { Some(&ecu) } else { None },
    );
    // the decision table of the property (membership is always false for empty sets)
    let expect = if !has_cfg {
        false
    } else if has_ext {
        let by_level = match &min_level {
            Some(m) => ref_skip(&eh.message_type, m).unwrap(),
            None => false,
        };
        by_level || app_some || ctx_some || (ecu_some && has_ecu)
    } else {
        (app_some && cfg.app_id_count > 0) || (ctx_some && cfg.context_id_count > 0)
    };
    assert!(r == expect, "filter decision differs from the property's decision table");
    kani::cover!(has_cfg && has_ext && r && !app_some && !ctx_some && ecu_some, "dropped by ECU id only");
    kani::cover!(has_cfg && has_ext && !r && ecu_some && !has_ecu, "kept: ECU set given but the header has no ECU id");
    kani::cover!(has_cfg && !has_ext && r && !app_some, "no extended header: dropped by the context-id count");
    kani::cover!(has_cfg && !has_ext && !r && app_some && ctx_some, "no extended header: kept although both sets are given");
    kani::cover!(has_cfg && has_ext && r && !app_some && !ctx_some && !ecu_some, "dropped by level only");
    std::mem::forget(cfg);
    std::mem::forget(eh);
}


fn id_set(with: [bool; 4]) -> HashSet<String> {
    // candidates: the message's application id, context id, ECU id, and an id the message does not carry
    const CAND: [&str; 4] = ["AP1", "CT1", "EC1", "ZZZ"];
    let mut s = HashSet::new();
    let mut i = 0;
    while i < 4 {
        if with[i] {
            s.insert(String::from(CAND[i]));
        }
        i += 1;
    }
    s
}

fn count4(w: &[bool; 4]) -> i64 {
    w[0] as i64 + w[1] as i64 + w[2] as i64 + w[3] as i64
}

/// One concrete configuration of the three id sets (None = criterion absent, Some(flags) = the set holds the
/// flagged candidates); message type, levels, ECU id presence, extended header presence and the id counts
/// are symbolic.
fn membership_case(app: Option<[bool; 4]>, ctx: Option<[bool; 4]>, ecu_set: Option<[bool; 4]>) {
    let has_ext: bool = kani::any();
    let has_ecu: bool = kani::any();
    let min: Option<u8> = kani::any();
    let min_level = match min {
        Some(1) => Some(LogLevel::Fatal),
        Some(2) => Some(LogLevel::Error),
        Some(3) => Some(LogLevel::Warn),
        Some(4) => Some(LogLevel::Info),
        Some(5) => Some(LogLevel::Debug),
        Some(6) => Some(LogLevel::Verbose),
        _ => None,
    };
    let cfg = ProcessedDltFilterConfig {
        min_log_level: min_level,
        app_ids: app.map(id_set),
        ecu_ids: ecu_set.map(id_set),
        context_ids: ctx.map(id_set),
        app_id_count: kani::any(),
        context_id_count: kani::any(),
    };
    let eh = ExtendedHeader {
        verbose: kani::any(),
        argument_count: kani::any(),
        message_type: any_message_type(),
        application_id: String::from("AP1"),
        context_id: String::from("CT1"),
    };
    let ecu = String::from("EC1");
    let r = ph::filtered_out(if has_ext { Some(&eh) } else { None }, Some(&cfg), if has_ecu { Some(&ecu) } else { None });
    let expect = if has_ext {
        let by_level = match &min_level {
            Some(m) => ref_skip(&eh.message_type, m).unwrap(),
            None => false,
        };
        by_level || app.map_or(false, |w| !w[0]) || ctx.map_or(false, |w| !w[1]) || (has_ecu && ecu_set.map_or(false, |w| !w[2]))
    } else {
        app.map_or(false, |w| cfg.app_id_count > count4(&w)) || ctx.map_or(false, |w| cfg.context_id_count > count4(&w))
    };
    assert!(r == expect, "filter decision differs from the property's decision table (non-empty id sets)");
    std::mem::forget(cfg);
    std::mem::forget(eh);
}

// candidates: [0] the message's application id, [1] its context id, [2] its ECU id, [3] a foreign id
const SUBSETS: [[bool; 4]; 7] = [
    [false, false, false, false],
    [true, false, false, false],
    [false, true, false, false],
    [false, false, true, false],
    [false, false, false, true],
    [true, true, true, false],
    [false, true, true, true],
];
const OWN: [[bool; 4]; 3] = [[true, false, false, false], [false, true, false, false], [false, false, true, false]];

/// The decision procedure with NON-EMPTY id sets: one criterion ranges over 7 subsets of {the message's
/// application id, its context id, its ECU id, a foreign id} - so both outcomes of its lookup occur, as do sets that
/// hold another of the message's ids but not the right one - while each of the other two criteria is absent or
/// holds the message's own id. Everything else is symbolic per case.
fn membership(vary: usize) {
    let mut k = 0;
    while k < 7 {
        let mut o = 0;
        while o < 4 {
            let other1 = if o & 1 != 0 { Some(OWN[(vary + 1) % 3]) } else { None };
            let other2 = if o & 2 != 0 { Some(OWN[(vary + 2) % 3]) } else { None };
            let mut c: [Option<[bool; 4]>; 3] = [None, None, None];
            c[vary] = Some(SUBSETS[k]);
            c[(vary + 1) % 3] = other1;
            c[(vary + 2) % 3] = other2;
            membership_case(c[0], c[1], c[2]);
            o += 1;
        }
        k += 1;
    }
    kani::cover!(true);
}

#[kani::proof]
#[kani::unwind(9)]
fn c09_filtered_out_membership_app() {
    membership(0);
}

#[kani::proof]
#[kani::unwind(9)]
fn c09_filtered_out_membership_ctx() {
    membership(1);
}

#[kani::proof]
#[kani::unwind(9)]
fn c09_filtered_out_membership_ecu() {
    membership(2);
}

/// The conversions with NON-EMPTY id lists: the processed sets hold exactly the listed ids (duplicates collapse),
/// owned and borrowed.
#[kani::proof]
#[kani::unwind(8)]
fn c09_config_conversion_contents() {
    let by_ref: bool = kani::any();
    let cfg = DltFilterConfig {
        min_log_level: kani::any(),
        app_ids: Some(vec![String::from("AP1"), String::from("AP2"), String::from("AP1")]),
        ecu_ids: Some(vec![String::from("EC1")]),
        context_ids: None,
        app_id_count: kani::any(),
        context_id_count: kani::any(),
    };
    let p: ProcessedDltFilterConfig = if by_ref { ProcessedDltFilterConfig::from(&cfg) } else { ProcessedDltFilterConfig::from(cfg) };
    match &p.app_ids {
        Some(s) => assert!(s.len() == 2 && s.contains(&String::from("AP1")) && s.contains(&String::from("AP2")) && !s.contains(&String::from("EC1")), "application ids"),
        None => assert!(false, "application id set lost"),
    }
    match &p.ecu_ids {
        Some(s) => assert!(s.len() == 1 && s.contains(&String::from("EC1")), "ECU ids"),
        None => assert!(false, "ECU id set lost"),
    }
    assert!(p.context_ids.is_none(), "context id set invented");
    kani::cover!(by_ref);
    kani::cover!(!by_ref);
    std::mem::forget(p);
}
