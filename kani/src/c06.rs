//! C06 — storage-header resync skips exactly the bytes before the first pattern.
use crate::models::naive_find;
use dlt_core::parse::forward_to_next_storage_header;

/// "No optional CPU features": std_detect / memchr query the CPU through
/// inline assembly, which Kani cannot execute. With these two stubs the real
/// memchr code runs with its baseline (SSE2 / scalar) searchers.
pub fn cpuid_count_stub(_leaf: u32, _sub_leaf: u32) -> core::arch::x86_64::CpuidResult {
    core::arch::x86_64::CpuidResult { eax: 0, ebx: 0, ecx: 0, edx: 0 }
}
pub fn cpuid_stub(_leaf: u32) -> core::arch::x86_64::CpuidResult {
    core::arch::x86_64::CpuidResult { eax: 0, ebx: 0, ecx: 0, edx: 0 }
}

fn search_body<const N: usize>() {
    let buf: [u8; N] = kani::any();
    let len: usize = kani::any();
    kani::assume(len <= N);
    let input = &buf[..len];
    let want = naive_find(input, &[0x44, 0x4C, 0x54, 0x01]);
    match forward_to_next_storage_header(input) {
        Some((skipped, rest)) => {
            assert!(want == Some(skipped as usize), "offset is not that of the first occurrence");
            assert!(rest.len() == len - skipped as usize);
            assert!(rest.as_ptr() as usize == input.as_ptr() as usize + skipped as usize);
            kani::cover!(skipped == 0, "pattern at the start");
            kani::cover!(skipped as usize == N - 4, "pattern at the very end");
            kani::cover!(skipped == 1 && buf[0] == 0x44, "partial pattern directly before the pattern");
        }
        None => {
            assert!(want.is_none(), "absence reported although the pattern occurs");
            kani::cover!(len >= 4, "absent in a long enough input");
        }
    }
}

/// The real search (memchr::memmem) on every input of up to 8 bytes.
#[kani::proof]
#[kani::unwind(12)]
#[kani::stub(core::arch::x86_64::__cpuid_count, cpuid_count_stub)]
#[kani::stub(core::arch::x86_64::__cpuid, cpuid_stub)]
fn c06_search_real_memmem_8() {
    search_body::<8>();
}

/// Same on every input of up to 5 / 6 bytes: small enough to reach a verdict quickly for ANY implementation of
/// the search (the shortest inputs on which a partial pattern directly precedes the pattern have 5 bytes).
#[kani::proof]
#[kani::unwind(9)]
#[kani::stub(core::arch::x86_64::__cpuid_count, cpuid_count_stub)]
#[kani::stub(core::arch::x86_64::__cpuid, cpuid_stub)]
fn c06_search_real_5() {
    search_body::<5>();
}

#[kani::proof]
#[kani::unwind(10)]
#[kani::stub(core::arch::x86_64::__cpuid_count, cpuid_count_stub)]
#[kani::stub(core::arch::x86_64::__cpuid, cpuid_stub)]
fn c06_search_real_6() {
    search_body::<6>();
}

/// The real search on literal junk that ends in a partial pattern (or repeats pattern bytes) directly in front of
/// the pattern, followed by symbolic bytes: the reported offset is the junk length.
#[kani::proof]
#[kani::unwind(14)]
#[kani::stub(core::arch::x86_64::__cpuid_count, cpuid_count_stub)]
#[kani::stub(core::arch::x86_64::__cpuid, cpuid_stub)]
fn c06_search_real_partial_prefixes() {
    const JUNK: [&[u8]; 8] = [b"D", b"DL", b"DLT", b"DD", b"DLD", b"DLTD", b"\x01DLT", b"xDLTDL"];
    let t: [u8; 2] = kani::any();
    let mut k = 0;
    while k < JUNK.len() {
        let j = JUNK[k];
        let mut buf = [0u8; 12];
        let mut n = 0;
        while n < j.len() {
            buf[n] = j[n];
            n += 1;
        }
        buf[n] = 0x44;
        buf[n + 1] = 0x4C;
        buf[n + 2] = 0x54;
        buf[n + 3] = 0x01;
        buf[n + 4] = t[0];
        buf[n + 5] = t[1];
        let input = &buf[..n + 6];
        match forward_to_next_storage_header(input) {
            Some((skipped, rest)) => {
                assert!(skipped as usize == j.len(), "offset is not that of the first occurrence (partial pattern in front)");
                assert!(rest.len() == 6 && rest.as_ptr() as usize == input.as_ptr() as usize + j.len());
            }
            None => assert!(false, "absence reported although the pattern occurs"),
        }
        k += 1;
    }
    kani::cover!(true);
}

/// dlt_storage_header (through the hook) on literal junk ++ a literal storage header ++ two symbolic bytes (search
/// replaced by its specification, like in the harnesses below): the reported shift is the junk length, the header fields are those behind the junk, and the
/// remainder is what follows the 16 header bytes. (Near-concrete on purpose: it reaches a verdict in seconds for
/// any implementation of the resync, where the symbolic-message harnesses below may not.)
#[kani::proof]
#[kani::unwind(24)]
#[kani::stub(std::fmt::format, crate::models::fmt_format_stub)]
#[kani::stub(core::str::from_utf8, crate::models::from_utf8_stub)]
#[kani::stub(dlt_core::parse::forward_to_next_storage_header, crate::models::forward_stub)]
fn c06_storage_header_behind_literal_junk() {
    const JUNK: [&[u8]; 4] = [b"\xAA", b"\x00\x01\x02", b"DLT", b"xxDLDL"];
    let t: [u8; 2] = kani::any();
    let mut k = 0;
    while k < JUNK.len() {
        let j = JUNK[k];
        let mut buf = [0u8; 24];
        let mut n = 0;
        while n < j.len() {
            buf[n] = j[n];
            n += 1;
        }
        let hdr: [u8; 16] = [0x44, 0x4C, 0x54, 0x01, 0x11, 0x22, 0x33, 0x44 + 0x11, 5, 6, 7, 8, b'E', b'c', b'7', 0];
        let mut i = 0;
        while i < 16 {
            buf[n + i] = hdr[i];
            i += 1;
        }
        buf[n + 16] = t[0];
        buf[n + 17] = t[1];
        let input = &buf[..n + 18];
        let r = dlt_core::parse::verif_hooks::storage_header(input);
        match &r {
            Ok((rest, Some((sh, shifted)))) => {
                assert!(*shifted as usize == j.len(), "bytes skipped in front of the storage header are not the junk length");
                assert!(rest.len() == 2 && rest.as_ptr() as usize == input.as_ptr() as usize + j.len() + 16, "remainder does not start behind the storage header");
                assert!(sh.timestamp.seconds == 0x55332211 && sh.timestamp.microseconds == 0x08070605, "storage header fields are not those behind the junk");
                assert!(sh.ecu_id.as_bytes() == b"Ec7");
            }
            _ => assert!(false, "storage header behind junk not found"),
        }
        std::mem::forget(r);
        k += 1;
    }
    kani::cover!(true);
}

// ---- parsing with junk in front of the storage header -------------------------
use crate::c01::*;
use crate::refcodec::*;
use crate::shapes::*;
use dlt_core::parse::{dlt_message, ParsedMessage};

const S_ST_MIN: Shape = Shape { storage: true, htyp: H_MIN, msin: 0, ids: IDS_FULL, payload: P::NonVerbose(1) };

/// junk ++ message ++ tail parses to the same message and the same remainder as
/// message ++ tail. Junk strings are literal (incl. partial patterns directly in
/// front of the real pattern); message data and tail are symbolic. The search
/// itself is replaced by its specification here (the real memchr search over 30+
/// symbolic bytes did not finish in 15 min); that the real search meets the
/// specification is decided by c06_search_real_memmem_8. What these harnesses
/// decide is dlt_storage_header's use of the search result.
fn junk_then_message(junk: &[u8]) {
    let bt = build(&S_ST_MIN, 2, None, None);
    let plain = bt.buf.slice();
    let mut j = Buf::<MAXMSG>::new();
    j.put_bytes(junk, junk.len());
    j.put_bytes(plain, plain.len());
    // message ++ tail alone parses to the message described by `bt` with remainder = tail (P(shape), C01);
    // here: the same fields and the same remainder with junk in front
    let b = dlt_message(j.slice(), None, true);
    match &b {
        Ok((rb, ParsedMessage::Item(mb))) => {
            check_headers(mb, true, S_ST_MIN.htyp, S_ST_MIN.msin, &bt.h, bt.payload_len as u16);
            check_payload(mb, &S_ST_MIN, &bt);
            assert!(rb.len() == 2, "junk in front of the storage header changes the remainder");
            assert!(rb.as_ptr() as usize == j.slice().as_ptr() as usize + junk.len() + bt.msg_end, "remainder start");
            kani::cover!(true, "same message with junk in front");
        }
        _ => assert!(false, "message behind junk not parsed"),
    }
    std::mem::forget(b);
}

macro_rules! c06_junk {
    ($name:ident, $junk:expr) => {
        #[kani::proof]
        #[kani::unwind(40)]
        #[kani::stub(std::fmt::format, crate::models::fmt_format_stub)]
        #[kani::stub(core::str::from_utf8, crate::models::from_utf8_stub)]
        #[kani::stub(dlt_core::parse::forward_to_next_storage_header, crate::models::forward_stub)]
        fn $name() {
            junk_then_message(&$junk);
        }
    };
}
c06_junk!(c06_junk_1, [0xAAu8]);
c06_junk!(c06_junk_2, [0x0Du8, 0x0A]);
c06_junk!(c06_junk_3, [0x01u8, 0x00, 0xFF]);
c06_junk!(c06_junk_partial_d, [0x44u8]);
c06_junk!(c06_junk_partial_dlt, [0x00u8, 0x44, 0x4C, 0x54]);
c06_junk!(c06_junk_partial_ddl, [0x44u8, 0x4C, 0x44, 0x4C, 0x54, 0x00, 0x44]);

/// junk ++ message ++ tail with a filter that drops the message: the filtered-out marker carries the payload
/// length and the remainder is still the tail (the skipped junk, the storage header and the declared length
/// are all accounted for - the filter never changes where the next message is looked for).
fn junk_then_filtered_message(junk: &[u8], fm: crate::c04::FilterMode) {
    let bt = build(&S_ST_MIN, 2, None, None);
    let plain = bt.buf.slice();
    let mut j = Buf::<MAXMSG>::new();
    j.put_bytes(junk, junk.len());
    j.put_bytes(plain, plain.len());
    let filter = crate::c04::make_filter(fm);
    let b = dlt_message(j.slice(), filter.as_ref(), true);
    match &b {
        Ok((rb, ParsedMessage::FilteredOut(n))) => {
            assert!(*n == bt.payload_len, "filtered-out marker does not carry the payload length");
            assert!(rb.len() == 2, "junk in front of the storage header changes the remainder of a filtered-out message");
            assert!(rb.as_ptr() as usize == j.slice().as_ptr() as usize + junk.len() + bt.msg_end, "remainder start");
            kani::cover!(true, "filtered out behind junk");
        }
        _ => assert!(false, "message behind junk not filtered out"),
    }
    std::mem::forget(b);
    std::mem::forget(filter);
}

#[kani::proof]
#[kani::unwind(40)]
#[kani::stub(std::fmt::format, crate::models::fmt_format_stub)]
#[kani::stub(core::str::from_utf8, crate::models::from_utf8_stub)]
#[kani::stub(std::hash::RandomState::new, crate::c09::random_state_stub)]
#[kani::stub(dlt_core::parse::forward_to_next_storage_header, crate::models::forward_stub)]
fn c06_junk_3_filtered_out() {
    junk_then_filtered_message(&[0x01u8, 0x00, 0xFF], crate::c04::FilterMode::DropAll);
}

/// msg1 ++ junk ++ msg2: both messages are recovered, in order.
#[kani::proof]
#[kani::unwind(48)]
#[kani::stub(std::fmt::format, crate::models::fmt_format_stub)]
#[kani::stub(core::str::from_utf8, crate::models::from_utf8_stub)]
#[kani::stub(dlt_core::parse::forward_to_next_storage_header, crate::models::forward_stub)]
fn c06_stream_with_junk_between() {
    let b1 = build(&S_ST_MIN, 0, None, None);
    let b2 = build(&S_ST_MIN, 0, None, None);
    let mut s = Buf::<MAXMSG>::new();
    s.put_bytes(b1.buf.slice(), b1.msg_end);
    s.put_bytes(&[0x44, 0x4C, 0x00], 3);
    s.put_bytes(b2.buf.slice(), b2.msg_end);
    let r1 = dlt_message(s.slice(), None, true);
    match &r1 {
        Ok((rest, ParsedMessage::Item(m1))) => {
            assert!(m1.header.message_counter == b1.h.mcnt);
            assert!(rest.len() == 3 + b2.msg_end, "first message does not end where it declares");
            assert!(rest.as_ptr() as usize == s.slice().as_ptr() as usize + b1.msg_end);
        }
        _ => assert!(false, "first message lost"),
    }
    // continue on the remainder (re-sliced with concrete bounds; it is the slice asserted above)
    let rest = &s.slice()[b1.msg_end..];
    let r2 = dlt_message(rest, None, true);
    match &r2 {
        Ok((rest2, ParsedMessage::Item(m2))) => {
            assert!(m2.header.message_counter == b2.h.mcnt, "second message is not the one after the junk");
            assert!(rest2.is_empty());
            kani::cover!(true, "both recovered");
        }
        _ => assert!(false, "message after junk lost"),
    }
    std::mem::forget(r2);
    std::mem::forget(r1);
}
