//! W(shape) at component level: the crate's writers produce exactly the
//! reference bytes (C02 encoding half, C01 first conjunct), and computed
//! lengths equal serialised lengths (C15).
use crate::c01::*;
use crate::refcodec::*;
use crate::shapes::*;
use byteorder::{BigEndian, LittleEndian};
use dlt_core::dlt::*;

fn same(got: &[u8], want: &[u8]) -> bool {
    if got.len() != want.len() {
        return false;
    }
    let mut i = 0;
    while i < want.len() {
        if got[i] != want[i] {
            return false;
        }
        i += 1;
    }
    true
}

fn id_string(_id: &[u8; 4], len: usize) -> String {
    // ids are literal (see shapes::any_id)
    String::from(&"Ec7_"[..len])
}

/// One argument layout, both byte orders: as_bytes == reference, len() ==
/// serialised length, valid().
pub fn w_arg(a: &ArgShape) {
    // String VALUES: any read of the serialised bytes makes CBMC's SAT encoding exceed 16 GB (measured,
    // with and without raised field sensitivity, string built from a literal or from pushed bytes), while
    // the length equations finish in 35 s. For StringType layouts only the lengths are compared here
    // (C15); their byte layout is decided in the parser direction (p_arg_string*) only.
    let check_bytes = a.kind != AK::Str;
    let d = any_arg_data(a);
    let arg = make_arg(a, &d);
    assert!(arg.valid(), "well-formed argument fails the validity check");
    let n = arg.len();
    {
        let got = arg.as_bytes::<BigEndian>();
        let mut want = Buf::<64>::new();
        put_arg(&mut want, true, a, &d);
        if check_bytes {
            assert!(same(&got, want.slice()), "big-endian argument bytes differ from the reference layout");
        }
        assert!(n == got.len(), "len() differs from the big-endian serialised length");
        assert!(n == arg_len(a));
        std::mem::forget(got);
    }
    {
        let got = arg.as_bytes::<LittleEndian>();
        let mut want = Buf::<64>::new();
        put_arg(&mut want, false, a, &d);
        if check_bytes {
            assert!(same(&got, want.slice()), "little-endian argument bytes differ from the reference layout");
        }
        assert!(n == got.len(), "len() differs from the little-endian serialised length");
        std::mem::forget(got);
    }
    kani::cover!(true, "argument serialised");
    std::mem::forget(arg);
}

pub const fn sv(kind: AK, name_len: usize, unit_len: usize, body_len: usize, scod: u8, trai: bool) -> ArgShape {
    ArgShape { kind, vari: true, name_len, unit_len, body_len, scod, trai }
}
pub const fn sn(kind: AK, body_len: usize, scod: u8, trai: bool) -> ArgShape {
    ArgShape { kind, vari: false, name_len: 0, unit_len: 0, body_len, scod, trai }
}

/// StorageHeader::as_bytes for one id length (0..4), symbolic times.
fn w_storage_header(len: usize) {
    let id = any_id(len);
    let secs: u32 = kani::any();
    let micros: u32 = kani::any();
    let sh = StorageHeader { timestamp: DltTimeStamp { seconds: secs, microseconds: micros }, ecu_id: id_string(&id, len) };
    let got = sh.as_bytes();
    let mut h = any_header_data(IDS_FULL, 1, 0, 0);
    h.st_secs = secs;
    h.st_micros = micros;
    h.st_ecu = id;
    h.st_ecu_len = len;
    let mut want = Buf::<16>::new();
    put_storage_header(&mut want, &h);
    assert!(same(&got, want.slice()), "storage header bytes differ from the reference layout");
    kani::cover!(true);
    std::mem::forget(got);
    std::mem::forget(sh);
}

/// StandardHeader::as_bytes for one presence combination x byte order x ext flag
/// (all concrete: the writer sizes its buffer from the header-type byte, so a
/// symbolic flag or version makes the allocation size symbolic and the query
/// runs out of memory); version literal per instance (all versions: C14
/// c14_htyp_compose); counter, ids, session id, timestamp and payload length
/// (any value that fits the 16-bit length field) symbolic.
fn w_standard_header_one(combo: u8, big: bool, ueh: bool, version: u8) {
    let weid = combo & 1 != 0;
    let wsid = combo & 2 != 0;
    let wtms = combo & 4 != 0;
    let ecu_len: usize = 3;
    let ecu = any_id(ecu_len);
    let mut flags = 0u8;
    if weid { flags |= HTYP_WEID; }
    if wsid { flags |= HTYP_WSID; }
    if wtms { flags |= HTYP_WTMS; }
    let hl_noext = headers_len(flags) as u16;
    let hl = hl_noext + if ueh { 10 } else { 0 };
    let payload_length: u16 = kani::any();
    kani::assume(payload_length <= u16::MAX - hl);
    let mut h = any_header_data(IDS_FULL, 0, 0, 0);
    h.ecu = ecu;
    h.ecu_len = ecu_len;
    let sh = StandardHeader {
        version,
        endianness: if big { Endianness::Big } else { Endianness::Little },
        has_extended_header: ueh,
        message_counter: h.mcnt,
        ecu_id: if weid { Some(id_string(&ecu, ecu_len)) } else { None },
        session_id: if wsid { Some(h.session) } else { None },
        timestamp: if wtms { Some(h.timestamp) } else { None },
        payload_length,
    };
    let got = sh.as_bytes();
    // reference bytes: HTYP from the layout table, MCNT, BE LEN, then ECU id, session id, timestamp
    let mut want = Buf::<16>::new();
    let htyp = flags | (ueh as u8) | ((big as u8) << 1) | ((version & 7) << 5);
    want.put(htyp);
    want.put(h.mcnt);
    want.put_u16(true, hl + payload_length);
    if weid { want.put_id(&ecu, ecu_len); }
    if wsid { want.put_u32(true, h.session); }
    if wtms { want.put_u32(true, h.timestamp); }
    assert!(same(&got, want.slice()), "standard header bytes differ from the reference layout");
    assert!(sh.overall_length() == hl + payload_length);
    std::mem::forget(got);
    std::mem::forget(sh);
}

fn w_standard_header(combo: u8) {
    w_standard_header_one(combo, false, false, combo);
    w_standard_header_one(combo, true, true, 7 - combo);
    w_standard_header_one(combo, true, false, 1);
    w_standard_header_one(combo, false, true, 0);
    kani::cover!(true);
}

/// ExtendedHeader::as_bytes: every message type / sub-type, verbose flag, NOAR;
/// application id of `len` bytes, context id of 4 - len bytes.
fn w_extended_header(len: usize) {
    let msin: u8 = kani::any();
    let noar: u8 = kani::any();
    let apid = any_id(len);
    let ctid = any_id(4 - len);
    let eh = ExtendedHeader {
        verbose: msin & 1 == 1,
        argument_count: noar,
        message_type: crate::c14::ref_message_type(msin),
        application_id: id_string(&apid, len),
        context_id: id_string(&ctid, 4 - len),
    };
    let got = eh.as_bytes();
    let mut want = Buf::<10>::new();
    want.put(msin);
    want.put(noar);
    want.put_id(&apid, len);
    want.put_id(&ctid, 4 - len);
    assert!(same(&got, want.slice()), "extended header bytes differ from the reference layout");
    kani::cover!(true);
    std::mem::forget(got);
    std::mem::forget(eh);
}

macro_rules! w_unit {
    ($name:ident, $f:ident, $arg:expr) => {
        #[kani::proof]
        #[kani::unwind(20)]
        fn $name() {
            $f($arg);
        }
    };
}
w_unit!(c02w_storage_header_id0, w_storage_header, 0);
w_unit!(c02w_storage_header_id1, w_storage_header, 1);
w_unit!(c02w_storage_header_id3, w_storage_header, 3);
w_unit!(c02w_storage_header_id4, w_storage_header, 4);
w_unit!(c02w_standard_header_c0, w_standard_header, 0);
w_unit!(c02w_standard_header_c1, w_standard_header, 1);
w_unit!(c02w_standard_header_c2, w_standard_header, 2);
w_unit!(c02w_standard_header_c3, w_standard_header, 3);
w_unit!(c02w_standard_header_c4, w_standard_header, 4);
w_unit!(c02w_standard_header_c5, w_standard_header, 5);
w_unit!(c02w_standard_header_c6, w_standard_header, 6);
w_unit!(c02w_standard_header_c7, w_standard_header, 7);
w_unit!(c02w_extended_header_id0, w_extended_header, 0);
w_unit!(c02w_extended_header_id1, w_extended_header, 1);
w_unit!(c02w_extended_header_id3, w_extended_header, 3);
w_unit!(c02w_extended_header_id4, w_extended_header, 4);

/// Ids that contain multi-byte UTF-8 characters (the 4-byte fields count BYTES): storage header ECU id "Z\u{fc}1"
/// (4 bytes), standard header ECU id "\u{e9}" (2 bytes + 2 NUL), application id "\u{e4}b" (3 + 1), context id
/// "\u{20ac}" (3 + 1). Times, counter, MSIN and NOAR symbolic.
#[kani::proof]
#[kani::unwind(20)]
fn c02w_ids_multibyte_utf8() {
    let secs: u32 = kani::any();
    let micros: u32 = kani::any();
    let sh = StorageHeader { timestamp: DltTimeStamp { seconds: secs, microseconds: micros }, ecu_id: String::from("Z\u{fc}1") };
    let got = sh.as_bytes();
    let mut want = Buf::<16>::new();
    want.put_bytes(&[0x44, 0x4C, 0x54, 0x01], 4);
    want.put_u32(false, secs);
    want.put_u32(false, micros);
    want.put_bytes(&[b'Z', 0xC3, 0xBC, b'1'], 4);
    assert!(same(&got, want.slice()), "storage header with a multi-byte ECU id differs from the reference layout");
    std::mem::forget(got);
    std::mem::forget(sh);

    let mcnt: u8 = kani::any();
    let h = StandardHeader { version: 1, endianness: Endianness::Little, has_extended_header: true, message_counter: mcnt,
                             ecu_id: Some(String::from("\u{e9}")), session_id: None, timestamp: None, payload_length: 0 };
    let got = h.as_bytes();
    let mut want = Buf::<16>::new();
    want.put(0x25); // UEH | WEID | version 1
    want.put(mcnt);
    want.put_u16(true, 4 + 4 + 10);
    want.put_bytes(&[0xC3, 0xA9, 0, 0], 4);
    assert!(same(&got, want.slice()), "standard header with a multi-byte ECU id differs from the reference layout");
    std::mem::forget(got);
    std::mem::forget(h);

    let msin: u8 = kani::any();
    let noar: u8 = kani::any();
    let eh = ExtendedHeader { verbose: msin & 1 == 1, argument_count: noar, message_type: crate::c14::ref_message_type(msin),
                              application_id: String::from("\u{e4}b"), context_id: String::from("\u{20ac}") };
    let got = eh.as_bytes();
    let mut want = Buf::<10>::new();
    want.put(msin);
    want.put(noar);
    want.put_bytes(&[0xC3, 0xA4, b'b', 0], 4);
    want.put_bytes(&[0xE2, 0x82, 0xAC, 0], 4);
    assert!(same(&got, want.slice()), "extended header with multi-byte ids differs from the reference layout");
    kani::cover!(true);
    std::mem::forget(got);
    std::mem::forget(eh);
}

/// PayloadContent::as_bytes for the non-argument payload kinds, both orders.
#[kani::proof]
#[kani::unwind(12)]
fn c02w_payload_nonverbose_control() {
    let big: bool = kani::any();
    let mut extra = 0;
    while extra <= 3 {
        let id: u32 = kani::any();
        let data: [u8; 4] = kani::any();
        let mut v = Vec::with_capacity(extra);
        let mut i = 0;
        while i < extra { v.push(data[i]); i += 1; }
        let p = PayloadContent::NonVerbose(id, v);
        let got = dlt_core::dlt::verif_hooks::payload_as_bytes(&p, big);
        let mut want = Buf::<8>::new();
        want.put_u32(big, id);
        want.put_bytes(&data, extra);
        assert!(same(&got, want.slice()), "non-verbose payload bytes differ from the reference layout");
        std::mem::forget(got);
        std::mem::forget(p);
        // control
        let cid: u8 = kani::any();
        let mut v = Vec::with_capacity(extra);
        let mut i = 0;
        while i < extra { v.push(data[i]); i += 1; }
        let p = PayloadContent::ControlMsg(ControlType::from_value(cid), v);
        let got = dlt_core::dlt::verif_hooks::payload_as_bytes(&p, big);
        let mut want = Buf::<8>::new();
        want.put(cid);
        want.put_bytes(&data, extra);
        assert!(same(&got, want.slice()), "control payload bytes differ from the reference layout");
        std::mem::forget(got);
        std::mem::forget(p);
        extra += 1;
    }
    kani::cover!(true);
}

fn nettrace_payload(big: bool, lens: &[usize]) {
    let mut slices: Vec<Vec<u8>> = Vec::with_capacity(lens.len());
    let mut want = Buf::<32>::new();
    let mut k = 0;
    while k < lens.len() {
        let data: [u8; 4] = kani::any();
        let mut v = Vec::with_capacity(lens[k]);
        let mut i = 0;
        while i < lens[k] { v.push(data[i]); i += 1; }
        slices.push(v);
        want.put_u32(big, TI_RAWD);
        want.put_u16(big, lens[k] as u16);
        want.put_bytes(&data, lens[k]);
        k += 1;
    }
    let p = PayloadContent::NetworkTrace(slices);
    let got = dlt_core::dlt::verif_hooks::payload_as_bytes(&p, big);
    assert!(same(&got, want.slice()), "network-trace payload bytes differ from the reference layout (type info in message byte order, 16-bit length, data)");
    kani::cover!(true);
    std::mem::forget(got);
    std::mem::forget(p);
}

#[kani::proof]
#[kani::unwind(24)]
fn c02w_payload_nettrace_le() {
    nettrace_payload(false, &[2, 0, 3]);
}

#[kani::proof]
#[kani::unwind(24)]
fn c02w_payload_nettrace_be() {
    nettrace_payload(true, &[2, 0, 3]);
}

/// Verbose payload = concatenation of the argument encodings, in order.
#[kani::proof]
#[kani::unwind(40)]
fn c02w_payload_verbose_concat() {
    let big: bool = kani::any();
    let a0 = sn(AK::U(1), 0, 0, false);
    let a1 = sn(AK::Bool, 0, 0, false);
    let d0 = any_arg_data(&a0);
    let d1 = any_arg_data(&a1);
    let p = PayloadContent::Verbose(vec![make_arg(&a0, &d0), make_arg(&a1, &d1)]);
    let got = dlt_core::dlt::verif_hooks::payload_as_bytes(&p, big);
    let mut want = Buf::<32>::new();
    put_arg(&mut want, big, &a0, &d0);
    put_arg(&mut want, big, &a1, &d1);
    assert!(same(&got, want.slice()), "verbose payload is not the concatenation of its arguments");
    kani::cover!(true);
    std::mem::forget(got);
    std::mem::forget(p);
}

/// Probe: whole-message writer for the smallest shape.
#[kani::proof]
#[kani::unwind(24)]
fn c02w_message_whole_nonverbose_min() {
    let s = Shape { storage: false, htyp: H_MIN, msin: 0, ids: IDS_FULL, payload: P::NonVerbose(2) };
    let h = any_header_data(s.ids, 1, 0, 0);
    let id: u32 = kani::any();
    let d: [u8; 2] = kani::any();
    let m = Message {
        storage_header: None,
        header: StandardHeader { version: 1, endianness: Endianness::Little, has_extended_header: false, message_counter: h.mcnt, ecu_id: None, session_id: None, timestamp: None, payload_length: 6 },
        extended_header: None,
        payload: PayloadContent::NonVerbose(id, vec![d[0], d[1]]),
    };
    let got = m.as_bytes();
    let mut want = Buf::<16>::new();
    put_standard_header(&mut want, H_MIN & 0x1f, &h, 10);
    want.put_u32(false, id);
    want.put(d[0]);
    want.put(d[1]);
    assert!(same(&got, want.slice()), "whole message bytes differ from the reference layout");
    kani::cover!(true);
    std::mem::forget(got);
    std::mem::forget(m);
}

// ---------------------------------------------------------------------------
// W(shape) for the WHOLE message: Message::as_bytes == reference encoding
// (storage header ++ standard header ++ extended header ++ payload in message
// byte order), all data symbolic, control literal per shape.
// ---------------------------------------------------------------------------
fn vec_of(d: &[u8; 4], n: usize) -> Vec<u8> {
    let mut v = Vec::with_capacity(n);
    let mut i = 0;
    while i < n {
        v.push(d[i]);
        i += 1;
    }
    v
}

/// The message value described by a shape and the data the reference encoder used.
pub fn message_of(s: &Shape, bt: &Built) -> Message {
    let h = &bt.h;
    let big = s.htyp & HTYP_MSBF != 0;
    let payload = match s.payload {
        P::Verbose(shapes) => {
            let mut v = Vec::with_capacity(shapes.len());
            let mut i = 0;
            while i < shapes.len() {
                v.push(make_arg(&shapes[i], &bt.args[i]));
                i += 1;
            }
            PayloadContent::Verbose(v)
        }
        P::NonVerbose(extra) => PayloadContent::NonVerbose(bt.nv_id, vec_of(&bt.nv_data, extra)),
        P::Control(extra) => PayloadContent::ControlMsg(ControlType::from_value(bt.nv_id as u8), vec_of(&bt.nv_data, extra)),
        P::NetTrace(lens) => {
            let mut v = Vec::with_capacity(lens.len());
            let mut i = 0;
            while i < lens.len() {
                v.push(vec_of(&bt.slices[i], lens[i]));
                i += 1;
            }
            PayloadContent::NetworkTrace(v)
        }
    };
    Message {
        storage_header: if s.storage {
            Some(StorageHeader { timestamp: DltTimeStamp { seconds: h.st_secs, microseconds: h.st_micros }, ecu_id: id_string(&h.st_ecu, h.st_ecu_len) })
        } else {
            None
        },
        header: StandardHeader {
            version: s.htyp >> 5,
            endianness: if big { Endianness::Big } else { Endianness::Little },
            has_extended_header: s.htyp & HTYP_UEH != 0,
            message_counter: h.mcnt,
            ecu_id: if s.htyp & HTYP_WEID != 0 { Some(id_string(&h.ecu, h.ecu_len)) } else { None },
            session_id: if s.htyp & HTYP_WSID != 0 { Some(h.session) } else { None },
            timestamp: if s.htyp & HTYP_WTMS != 0 { Some(h.timestamp) } else { None },
            payload_length: bt.payload_len as u16,
        },
        extended_header: if s.htyp & HTYP_UEH != 0 {
            Some(ExtendedHeader {
                verbose: s.msin & 1 == 1,
                argument_count: h.noar,
                message_type: crate::c14::ref_message_type(s.msin),
                application_id: id_string(&h.apid, h.apid_len),
                context_id: id_string(&h.ctid, h.ctid_len),
            })
        } else {
            None
        },
        payload,
    }
}

pub fn w_message(s: &Shape) {
    let bt = build(s, 0, None, None);
    let m = message_of(s, &bt);
    let got = m.as_bytes();
    assert!(same(&got, bt.buf.slice()), "whole message bytes differ from the reference layout");
    assert!(m.byte_len() as usize == bt.msg_end - bt.msg_start, "byte_len differs from the serialisation without storage header");
    kani::cover!(true, "whole message serialised");
    std::mem::forget(got);
    std::mem::forget(m);
}

macro_rules! w_msg {
    ($name:ident, $shape:expr) => {
        #[kani::proof]
        #[kani::unwind(100)]
        fn $name() {
            let s: Shape = $shape;
            w_message(&s);
        }
    };
}
w_msg!(c02w_msg_nonverbose_min, Shape { storage: false, htyp: H_MIN, msin: 0, ids: IDS_FULL, payload: P::NonVerbose(2) });
w_msg!(c02w_msg_nonverbose_ext_storage_be, Shape { storage: true, htyp: H_ALL_BE, msin: M_LOG_WARN_NV, ids: IDS_SHORT, payload: P::NonVerbose(3) });
w_msg!(c02w_msg_control_le, Shape { storage: false, htyp: H_EXT_LE, msin: M_CTRL_REQ, ids: IDS_FULL, payload: P::Control(2) });
w_msg!(c02w_msg_nettrace_be, Shape { storage: false, htyp: H_EXT_BE, msin: M_NW_CAN_V, ids: IDS_FULL, payload: P::NetTrace(&[3]) });
// (two slices: CBMC reports a counterexample that does not reproduce natively - an over-approximation somewhere in
// BytesMut's growth path when the payload vector holds two inner vectors; the two- and three-slice payload layout is
// decided at unit level in c02w_payload_nettrace_*)
w_msg!(c02w_msg_nettrace_storage_le, Shape { storage: true, htyp: H_EXT_LE, msin: M_NW_CAN_V, ids: IDS_FULL, payload: P::NetTrace(&[2]) });
w_msg!(c02w_msg_verbose_bool_le, Shape { storage: false, htyp: H_EXT_LE, msin: M_LOG_INFO_V, ids: IDS_FULL, payload: P::Verbose(&[arg(AK::Bool)]) });
w_msg!(c02w_msg_verbose_u32_named_be_storage, Shape { storage: true, htyp: H_ALL_BE, msin: M_LOG_INFO_V, ids: IDS_FULL, payload: P::Verbose(&[arg_v(AK::U(4), 2, 1)]) });
w_msg!(c02w_msg_nettrace_empty, Shape { storage: false, htyp: H_EXT_BE, msin: M_NW_CAN_V, ids: IDS_SHORT, payload: P::NetTrace(&[]) });
w_msg!(c02w_msg_verbose_f64_all_le, Shape { storage: false, htyp: H_ALL_LE, msin: M_APP_V, ids: IDS_FULL, payload: P::Verbose(&[arg(AK::F(8))]) });
w_msg!(c02w_msg_verbose_raw_be, Shape { storage: false, htyp: H_EXT_BE, msin: M_LOG_INFO_V, ids: IDS_FULL, payload: P::Verbose(&[arg(AK::Raw)]) });
w_msg!(c02w_msg_verbose_sfix64_v_storage, Shape { storage: true, htyp: H_EXT_LE, msin: M_LOG_INFO_V, ids: IDS_FULL, payload: P::Verbose(&[arg_v(AK::SFix(8), 1, 2)]) });
w_msg!(c02w_msg_verbose_empty, Shape { storage: false, htyp: H_EXT_LE, msin: M_LOG_INFO_V, ids: IDS_SHORT, payload: P::Verbose(&[]) });
