//! Independent reference codec for the AUTOSAR DLT layout (DESIGN.md §3).
//!
//! Written from the layout description quoted in property C02, not from
//! dlt-core: storage header `DLT\x01` + LE seconds + LE microseconds + 4-byte
//! ECU id; standard header HTYP (UEH=bit0, MSBF=bit1, WEID=bit2, WSID=bit3,
//! WTMS=bit4, VERS=bits5-7), MCNT, BE LEN, then ECU id, BE session id, BE
//! timestamp; extended header MSIN (VERB=bit0, MSTP=bits1-3, MTIN=bits4-7),
//! NOAR, APID, CTID; payload in MSBF order. Fixed arrays, no allocation, no
//! nom, no byteorder.

/// Append-only byte buffer over a fixed array. All indices are concrete in
/// the harnesses, so control bytes written as literals stay literal for CBMC.
#[derive(Clone, Copy)]
pub struct Buf<const N: usize> {
    pub b: [u8; N],
    pub n: usize,
}

impl<const N: usize> Buf<N> {
    pub fn new() -> Self {
        Buf { b: [0u8; N], n: 0 }
    }
    #[inline(always)]
    pub fn put(&mut self, x: u8) {
        self.b[self.n] = x;
        self.n += 1;
    }
    pub fn put_u16(&mut self, big: bool, v: u16) {
        let b = v.to_be_bytes();
        if big {
            self.put(b[0]);
            self.put(b[1]);
        } else {
            self.put(b[1]);
            self.put(b[0]);
        }
    }
    pub fn put_u32(&mut self, big: bool, v: u32) {
        let b = v.to_be_bytes();
        let mut i = 0;
        while i < 4 {
            self.put(if big { b[i] } else { b[3 - i] });
            i += 1;
        }
    }
    pub fn put_u64(&mut self, big: bool, v: u64) {
        let b = v.to_be_bytes();
        let mut i = 0;
        while i < 8 {
            self.put(if big { b[i] } else { b[7 - i] });
            i += 1;
        }
    }
    pub fn put_u128(&mut self, big: bool, v: u128) {
        let b = v.to_be_bytes();
        let mut i = 0;
        while i < 16 {
            self.put(if big { b[i] } else { b[15 - i] });
            i += 1;
        }
    }
    /// id of `len` (<= 4) bytes, NUL padded to 4
    pub fn put_id(&mut self, id: &[u8; 4], len: usize) {
        let mut i = 0;
        while i < 4 {
            self.put(if i < len { id[i] } else { 0 });
            i += 1;
        }
    }
    pub fn put_bytes(&mut self, s: &[u8], len: usize) {
        let mut i = 0;
        while i < len {
            self.put(s[i]);
            i += 1;
        }
    }
    pub fn slice(&self) -> &[u8] {
        &self.b[..self.n]
    }
}

pub const HTYP_UEH: u8 = 1;
pub const HTYP_MSBF: u8 = 2;
pub const HTYP_WEID: u8 = 4;
pub const HTYP_WSID: u8 = 8;
pub const HTYP_WTMS: u8 = 16;

/// Length of standard (+ extended) header for a HTYP byte.
pub const fn headers_len(htyp: u8) -> usize {
    4 + if htyp & HTYP_WEID != 0 { 4 } else { 0 }
        + if htyp & HTYP_WSID != 0 { 4 } else { 0 }
        + if htyp & HTYP_WTMS != 0 { 4 } else { 0 }
        + if htyp & HTYP_UEH != 0 { 10 } else { 0 }
}

/// Data (non-control) fields of the headers; which of them are present is
/// decided by the HTYP flags / storage mode (shape).
#[derive(Clone, Copy)]
pub struct HeaderData {
    pub st_secs: u32,
    pub st_micros: u32,
    pub st_ecu: [u8; 4],
    pub st_ecu_len: usize,
    pub version: u8, // 0..7
    pub mcnt: u8,
    pub ecu: [u8; 4],
    pub ecu_len: usize,
    pub session: u32,
    pub timestamp: u32,
    pub mtin: u8, // 0..15 (sub-type nibble)
    pub noar: u8,
    pub apid: [u8; 4],
    pub apid_len: usize,
    pub ctid: [u8; 4],
    pub ctid_len: usize,
}

pub fn put_storage_header<const N: usize>(b: &mut Buf<N>, h: &HeaderData) {
    b.put(0x44);
    b.put(0x4C);
    b.put(0x54);
    b.put(0x01);
    b.put_u32(false, h.st_secs);
    b.put_u32(false, h.st_micros);
    b.put_id(&h.st_ecu, h.st_ecu_len);
}

/// Standard header. `htyp_flags` are the 5 literal flag bits (shape); the
/// version bits come from data. LEN is given explicitly.
pub fn put_standard_header<const N: usize>(b: &mut Buf<N>, htyp_flags: u8, h: &HeaderData, len: u16) {
    b.put(htyp_flags | (h.version << 5));
    b.put(h.mcnt);
    b.put_u16(true, len);
    if htyp_flags & HTYP_WEID != 0 {
        b.put_id(&h.ecu, h.ecu_len);
    }
    if htyp_flags & HTYP_WSID != 0 {
        b.put_u32(true, h.session);
    }
    if htyp_flags & HTYP_WTMS != 0 {
        b.put_u32(true, h.timestamp);
    }
}

/// Extended header. `msin_low` = literal VERB bit | MSTP<<1 (shape); MTIN
/// nibble from data.
pub fn put_extended_header<const N: usize>(b: &mut Buf<N>, msin_low: u8, h: &HeaderData) {
    b.put(msin_low | (h.mtin << 4));
    b.put(h.noar);
    b.put_id(&h.apid, h.apid_len);
    b.put_id(&h.ctid, h.ctid_len);
}

// type-info bit positions (PRS)
pub const TI_BOOL: u32 = 1 << 4;
pub const TI_SINT: u32 = 1 << 5;
pub const TI_UINT: u32 = 1 << 6;
pub const TI_FLOA: u32 = 1 << 7;
pub const TI_STRG: u32 = 1 << 9;
pub const TI_RAWD: u32 = 1 << 10;
pub const TI_VARI: u32 = 1 << 11;
pub const TI_FIXP: u32 = 1 << 12;
pub const TI_TRAI: u32 = 1 << 13;
pub const TI_SCOD_SHIFT: u32 = 15;

/// `len`-byte text field with its NUL terminator (length prefix is written by
/// the caller where the layout wants it).
pub fn put_text_nul<const N: usize>(b: &mut Buf<N>, s: &[u8], len: usize) {
    b.put_bytes(s, len);
    b.put(0);
}
