//! C08 — the async reader delivers what the blocking reader delivers, on any
//! schedule. No executor and no threads: the future is polled by hand with a
//! no-op waker; the source returns Pending / Ready(k) from a symbolic schedule.
use crate::c07::K;
use dlt_core::read::DltMessageReader;
use dlt_core::stream::DltStreamReader;
use futures::io::AsyncRead;
use std::future::Future;
use std::io;
use std::pin::Pin;
use std::task::{Context, Poll};

pub struct ASrc<const N: usize> {
    pub data: [u8; N],
    pub len: usize,
    pub pos: usize,
    pub sched: [u8; K],
    pub step: usize,
    pub pendings: usize,
}

impl<const N: usize> AsyncRead for ASrc<N> {
    fn poll_read(self: Pin<&mut Self>, _cx: &mut Context<'_>, buf: &mut [u8]) -> Poll<io::Result<usize>> {
        let this = self.get_mut();
        let mut want = usize::MAX;
        if this.step < K {
            let s = this.sched[this.step];
            this.step += 1;
            if s == 0 {
                this.pendings += 1;
                return Poll::Pending;
            }
            want = s as usize;
        }
        let avail = this.len - this.pos;
        let mut n = if want < avail { want } else { avail };
        if buf.len() < n {
            n = buf.len();
        }
        let mut i = 0;
        while i < n {
            buf[i] = this.data[this.pos + i];
            i += 1;
        }
        this.pos += n;
        Poll::Ready(Ok(n))
    }
}

/// Poll the reader's future to completion (at most K Pending results can occur).
fn drive<'a, const N: usize>(reader: &'a mut DltStreamReader<ASrc<N>>) -> Result<&'a [u8], dlt_core::parse::DltParseError> {
    let waker = futures::task::noop_waker();
    let mut cx = Context::from_waker(&waker);
    let mut fut = Box::pin(reader.next_message_slice());
    let mut polls = 0usize;
    loop {
        match fut.as_mut().poll(&mut cx) {
            Poll::Ready(r) => return r,
            Poll::Pending => {
                polls += 1;
                assert!(polls <= K, "future still pending although the source has data");
            }
        }
    }
}

/// Two literal-layout messages, symbolic data, any Pending/Ready schedule: the
/// async reader delivers the two cuts and then end-of-stream, exactly like the
/// blocking reader (c07_two_messages_any_schedule).
#[kani::proof]
#[kani::unwind(11)]
#[kani::stub(std::fmt::format, crate::models::fmt_format_stub)]
fn c08_two_messages_any_schedule() {
    let d: [u8; 4] = kani::any();
    let data: [u8; 9] = [0x20, d[0], 0, 5, d[1], 0x22, d[2], 0, 4];
    let src = ASrc::<9> { data, len: 9, pos: 0, sched: kani::any(), step: 0, pendings: 0 };
    let mut reader = DltStreamReader::with_capacity(6, 6, src, false);
    match drive(&mut reader) {
        Ok(s) => {
            assert!(s.len() == 5, "first cut");
            let mut i = 0;
            while i < 5 { assert!(s[i] == data[i]); i += 1; }
        }
        Err(_) => assert!(false, "first message not delivered"),
    }
    match drive(&mut reader) {
        Ok(s) => {
            assert!(s.len() == 4, "second cut");
            let mut i = 0;
            while i < 4 { assert!(s[i] == data[5 + i]); i += 1; }
        }
        Err(_) => assert!(false, "second message not delivered"),
    }
    match drive(&mut reader) {
        Ok(s) => assert!(s.is_empty(), "a third slice from an exhausted stream"),
        Err(_) => {}
    }
    kani::cover!(true, "both delivered");
    std::mem::forget(reader);
}

/// Any stream of up to 6 bytes: never panics; same terminal outcome class and
/// same slice as the blocking reader on the same bytes.
#[kani::proof]
#[kani::unwind(10)]
#[kani::stub(std::fmt::format, crate::models::fmt_format_stub)]
fn c08_any_stream_same_as_blocking_6() {
    let data: [u8; 6] = kani::any();
    let len: usize = kani::any();
    kani::assume(len <= 6);
    if len >= 4 {
        let declared = u16::from_be_bytes([data[2], data[3]]) as usize;
        kani::assume(declared <= 8);
    }
    let asrc = ASrc::<6> { data, len, pos: 0, sched: kani::any(), step: 0, pendings: 0 };
    let mut areader = DltStreamReader::with_capacity(8, 8, asrc, false);
    let bsrc = crate::c07::Src::<6> { data, len, pos: 0, sched: [255; K], step: 0, reads: 0 };
    let mut breader = DltMessageReader::with_capacity(8, 8, bsrc, false);
    let a = drive(&mut areader);
    let b = breader.next_message_slice();
    match (a, b) {
        (Ok(x), Ok(y)) => {
            assert!(x.len() == y.len(), "async and blocking reader deliver different slices");
            let mut i = 0;
            while i < x.len() { assert!(x[i] == y[i]); i += 1; }
            kani::cover!(x.len() == 6, "a 6-byte message from both");
            kani::cover!(x.is_empty() && len > 0, "end of stream from both");
        }
        (Err(_), Err(_)) => { kani::cover!(true, "error from both"); }
        _ => assert!(false, "async and blocking reader end differently"),
    }
    std::mem::forget(areader);
    std::mem::forget(breader);
}

/// A complete header-only message followed by 4 arbitrary bytes (a second header
/// with any declared length): both calls of the async reader end like the
/// corresponding calls of the blocking reader, under any Pending/Ready schedule.
#[kani::proof]
#[kani::unwind(11)]
#[kani::stub(std::fmt::format, crate::models::fmt_format_stub)]
fn c08_second_header_any_bytes() {
    let d: [u8; 5] = kani::any();
    let data: [u8; 8] = [0x20, d[0], 0, 4, d[1], d[2], d[3], d[4]];
    let declared = u16::from_be_bytes([d[3], d[4]]) as usize;
    kani::assume(declared <= 8);
    let asrc = ASrc::<8> { data, len: 8, pos: 0, sched: kani::any(), step: 0, pendings: 0 };
    let mut areader = DltStreamReader::with_capacity(8, 8, asrc, false);
    let bsrc = crate::c07::Src::<8> { data, len: 8, pos: 0, sched: [255; K], step: 0, reads: 0 };
    let mut breader = DltMessageReader::with_capacity(8, 8, bsrc, false);
    // first message
    let a1 = drive(&mut areader).map(|s| s.len());
    let b1 = breader.next_message_slice().map(|s| s.len());
    match (&a1, &b1) {
        (Ok(x), Ok(y)) => assert!(*x == 4 && *y == 4, "first message"),
        _ => assert!(false, "first message not delivered by both readers"),
    }
    // second call: whatever the blocking reader reports, the async reader reports the same
    let a2 = drive(&mut areader).map(|s| s.len());
    let b2 = breader.next_message_slice().map(|s| s.len());
    match (&a2, &b2) {
        (Ok(x), Ok(y)) => {
            assert!(x == y, "async and blocking reader deliver different second slices");
            kani::cover!(*x == 4, "second header-only message from both");
            kani::cover!(*x == 0, "end of stream from both");
        }
        (Err(_), Err(_)) => {
            kani::cover!(declared < 4, "declared length below the header: error from both");
        }
        _ => assert!(false, "async and blocking reader end differently on the second message"),
    }
    std::mem::forget(a1);
    std::mem::forget(b1);
    std::mem::forget(a2);
    std::mem::forget(b2);
    std::mem::forget(areader);
    std::mem::forget(breader);
}

/// Smallest instance: one 5-byte message, any 2-step Pending/Ready schedule.
#[kani::proof]
#[kani::unwind(8)]
#[kani::stub(std::fmt::format, crate::models::fmt_format_stub)]
fn c08_one_message_any_schedule() {
    let d: [u8; 2] = kani::any();
    let data: [u8; 5] = [0x20, d[0], 0, 5, d[1]];
    let src = ASrc::<5> { data, len: 5, pos: 0, sched: kani::any(), step: 0, pendings: 0 };
    let mut reader = DltStreamReader::with_capacity(5, 5, src, false);
    match drive(&mut reader) {
        Ok(s) => {
            assert!(s.len() == 5, "the message is not delivered as one cut");
            let mut i = 0;
            while i < 5 { assert!(s[i] == data[i]); i += 1; }
            kani::cover!(true, "delivered");
        }
        Err(_) => assert!(false, "message not delivered"),
    }
    std::mem::forget(reader);
}

/// Probe: the smallest instance with a LITERAL schedule (Pending, then a 2-byte fragment, then complete reads).
fn one_message_fixed(sched: [u8; K]) {
    let d: [u8; 2] = kani::any();
    let data: [u8; 5] = [0x20, d[0], 0, 5, d[1]];
    let src = ASrc::<5> { data, len: 5, pos: 0, sched, step: 0, pendings: 0 };
    let mut reader = DltStreamReader::with_capacity(5, 5, src, false);
    match drive(&mut reader) {
        Ok(s) => {
            assert!(s.len() == 5, "the message is not delivered as one cut");
            let mut i = 0;
            while i < 5 { assert!(s[i] == data[i]); i += 1; }
            kani::cover!(true, "delivered");
        }
        Err(_) => assert!(false, "message not delivered"),
    }
    std::mem::forget(reader);
}

#[kani::proof]
#[kani::unwind(8)]
#[kani::stub(std::fmt::format, crate::models::fmt_format_stub)]
fn c08_probe_fixed_pending_then_2() {
    one_message_fixed([0, 2]);
}

#[kani::proof]
#[kani::unwind(8)]
#[kani::stub(std::fmt::format, crate::models::fmt_format_stub)]
fn c08_probe_fixed_complete() {
    one_message_fixed([255, 255]);
}
