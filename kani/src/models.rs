//! Stubs / models used through `#[kani::stub]` (see DESIGN.md §2.3).
//! Every stub is part of the claim of each harness that uses it and is
//! listed in the evidence file of the run.

/// Model of `alloc::fmt::format`: error *messages* are not the subject of any
/// property; error *classes* are preserved by the callers.
pub fn fmt_format_stub(_args: core::fmt::Arguments<'_>) -> String {
    String::new()
}

/// Byte-wise UTF-8 validator (Unicode 15 table 3-7). Returns the length of the
/// longest valid prefix and whether the whole slice is valid.
pub fn utf8_valid_up_to(b: &[u8]) -> (usize, bool) {
    let n = b.len();
    let mut i = 0usize;
    while i < n {
        let c = b[i];
        if c < 0x80 {
            i += 1;
            continue;
        }
        let (need, lo, hi) = if c >= 0xC2 && c <= 0xDF {
            (1usize, 0x80u8, 0xBFu8)
        } else if c == 0xE0 {
            (2, 0xA0, 0xBF)
        } else if (c >= 0xE1 && c <= 0xEC) || c == 0xEE || c == 0xEF {
            (2, 0x80, 0xBF)
        } else if c == 0xED {
            (2, 0x80, 0x9F)
        } else if c == 0xF0 {
            (3, 0x90, 0xBF)
        } else if c >= 0xF1 && c <= 0xF3 {
            (3, 0x80, 0xBF)
        } else if c == 0xF4 {
            (3, 0x80, 0x8F)
        } else {
            return (i, false);
        };
        // second byte
        if i + 1 >= n {
            return (i, false);
        }
        let b1 = b[i + 1];
        if b1 < lo || b1 > hi {
            return (i, false);
        }
        let mut k = 2usize;
        while k <= need {
            if i + k >= n {
                return (i, false);
            }
            let bk = b[i + k];
            if bk < 0x80 || bk > 0xBF {
                return (i, false);
            }
            k += 1;
        }
        i += need + 1;
    }
    (i, true)
}

#[repr(C)]
struct Utf8ErrorRepr {
    valid_up_to: usize,
    error_len: Option<u8>,
}

/// Model of `core::str::from_utf8` with the same contract as std's: `Ok(s)`
/// iff the whole slice is valid UTF-8, else `Err(e)` with
/// `e.valid_up_to()` = length of the longest valid prefix. `error_len` is
/// always reported as `None` (dlt-core never reads it).
pub fn from_utf8_stub(v: &[u8]) -> Result<&str, core::str::Utf8Error> {
    let (upto, ok) = utf8_valid_up_to(v);
    if ok {
        Ok(unsafe { core::str::from_utf8_unchecked(v) })
    } else {
        let r = Utf8ErrorRepr {
            valid_up_to: upto,
            error_len: None,
        };
        Err(unsafe { core::mem::transmute::<Utf8ErrorRepr, core::str::Utf8Error>(r) })
    }
}

/// Naive first-occurrence search: the documented contract of
/// `memchr::memmem::Finder::find`.
pub fn naive_find(hay: &[u8], needle: &[u8]) -> Option<usize> {
    let n = needle.len();
    if n == 0 {
        return Some(0);
    }
    if hay.len() < n {
        return None;
    }
    let mut i = 0usize;
    while i + n <= hay.len() {
        let mut j = 0usize;
        let mut ok = true;
        while j < n {
            if hay[i + j] != needle[j] {
                ok = false;
                break;
            }
            j += 1;
        }
        if ok {
            return Some(i);
        }
        i += 1;
    }
    None
}

/// Specification of `dlt_core::parse::forward_to_next_storage_header`
/// (offset of the first `DLT\x01`, and the input from there). Used in
/// whole-message harnesses because memchr's finder does run-time CPU feature
/// detection through inline assembly, which Kani cannot execute. That the real
/// function meets this specification is the subject of C06's unit harness.
pub fn forward_stub(input: &[u8]) -> Option<(u64, &[u8])> {
    match naive_find(input, &[0x44, 0x4C, 0x54, 0x01]) {
        Some(i) => Some((i as u64, &input[i..])),
        None => None,
    }
}
