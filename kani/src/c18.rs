//! C18 — fixed-point arguments convert to quantization x value + offset
//! without panicking.
use dlt_core::dlt::*;

fn any_kind() -> TypeInfoKind {
    let k: u8 = kani::any();
    let fw = if kani::any() { FloatWidth::Width32 } else { FloatWidth::Width64 };
    let tl = match kani::any::<u8>() % 5 {
        0 => TypeLength::BitLength8,
        1 => TypeLength::BitLength16,
        2 => TypeLength::BitLength32,
        3 => TypeLength::BitLength64,
        _ => TypeLength::BitLength128,
    };
    match k % 8 {
        0 => TypeInfoKind::Bool,
        1 => TypeInfoKind::Signed(tl),
        2 => TypeInfoKind::SignedFixedPoint(fw),
        3 => TypeInfoKind::Unsigned(tl),
        4 => TypeInfoKind::UnsignedFixedPoint(fw),
        5 => TypeInfoKind::Float(fw),
        6 => TypeInfoKind::StringType,
        _ => TypeInfoKind::Raw,
    }
}

fn is_fp_kind(k: &TypeInfoKind) -> bool {
    matches!(k, TypeInfoKind::SignedFixedPoint(_) | TypeInfoKind::UnsignedFixedPoint(_))
}

fn mk(kind: TypeInfoKind, value: Value, fixed_point: Option<FixedPoint>) -> Argument {
    Argument {
        type_info: TypeInfo {
            kind,
            coding: StringCoding::UTF8,
            has_variable_info: false,
            has_trace_info: false,
        },
        name: None,
        unit: None,
        fixed_point,
        value,
    }
}

/// Shared body: `v` is the physical value as f64 (exactly what `as f64` of the
/// integer gives), all kinds symbolic, presence of fixed-point data symbolic.
fn check(value: Value, vf: f64, off: FixedPointValue, off_i: i128) {
    let q: f32 = kani::any();
    check_q(value, vf, off, off_i, q, true);
}

/// `q_symbolic` = false: the quantisation is a literal (64-bit values with a fully
/// symbolic f32 factor take 15-50 min; literal factors keep the int->double rounding
/// and the u64/i64 conversions symbolic and finish in seconds).
fn check_q(value: Value, vf: f64, off: FixedPointValue, off_i: i128, q: f32, q_symbolic: bool) {
    let kind = any_kind();
    let fp_kind = is_fp_kind(&kind);
    let has_fp: bool = kani::any();
    let fp = if has_fp { Some(FixedPoint { quantization: q, offset: off }) } else { None };
    let arg = mk(kind, value, fp);
    let r = arg.to_real_value(); // must not panic
    if !(fp_kind && has_fp) {
        assert!(r.is_none(), "a value although not (fixed-point kind with fixed-point data)");
    } else {
        let p = vf * (q as f64);
        // 2^64 as f64
        if p >= 0.0 && p < 18446744073709551616.0 {
            let t = p as u64 as i128; // truncation toward zero, exact in this range
            let sum = t + off_i;
            if sum >= 0 && sum < (1i128 << 63) {
                assert!(r == Some(sum as u64), "result differs from trunc(value*quantization)+offset");
                kani::cover!(off_i < 0, "negative offset, sum in range");
                kani::cover!(t > 0 && off_i > 0, "positive product and offset");
            }
        }
        if q_symbolic {
            kani::cover!(q.is_nan(), "NaN quantization");
            kani::cover!(q < 0.0, "negative quantization");
            kani::cover!(q.is_infinite(), "infinite quantization");
        }
    }
    std::mem::forget(arg);
}

macro_rules! c18_int {
    ($name32:ident, $name64:ident, $variant:ident, $ty:ty) => {
        #[kani::proof]
        fn $name32() {
            let v: $ty = kani::any();
            let o: i32 = kani::any();
            check(Value::$variant(v), v as f64, FixedPointValue::I32(o), o as i128);
        }
        #[kani::proof]
        fn $name64() {
            let v: $ty = kani::any();
            let o: i64 = kani::any();
            check(Value::$variant(v), v as f64, FixedPointValue::I64(o), o as i128);
        }
    };
}

c18_int!(c18_i8_off32, c18_i8_off64, I8, i8);
c18_int!(c18_i16_off32, c18_i16_off64, I16, i16);
c18_int!(c18_i32_off32, c18_i32_off64, I32, i32);
c18_int!(c18_i64_off32, c18_i64_off64, I64, i64);
c18_int!(c18_u8_off32, c18_u8_off64, U8, u8);
c18_int!(c18_u16_off32, c18_u16_off64, U16, u16);
c18_int!(c18_u32_off32, c18_u32_off64, U32, u32);
c18_int!(c18_u64_off32, c18_u64_off64, U64, u64);

macro_rules! c18_int_literal_q {
    ($name:ident, $variant:ident, $ty:ty, $offvariant:ident, $offty:ty) => {
        #[kani::proof]
        fn $name() {
            let qs: [f32; 5] = [1.0, 0.25, 0.125, 3.0, -1.0];
            let mut i = 0;
            while i < 5 {
                let v: $ty = kani::any();
                let o: $offty = kani::any();
                check_q(Value::$variant(v), v as f64, FixedPointValue::$offvariant(o), o as i128, qs[i], false);
                i += 1;
            }
        }
    };
}
c18_int_literal_q!(c18_u64_off32_literal_q, U64, u64, I32, i32);
c18_int_literal_q!(c18_u64_off64_literal_q, U64, u64, I64, i64);
c18_int_literal_q!(c18_i64_off64_literal_q, I64, i64, I64, i64);
c18_int_literal_q!(c18_u32_off64_literal_q, U32, u32, I64, i64);

/// Every non-integer (or 128-bit) value variant, every kind, fixed-point data
/// present or not: never a value, never a panic.
#[kani::proof]
#[kani::unwind(4)]
fn c18_non_integer_values_yield_nothing() {
    let which: u8 = kani::any();
    let value = match which % 7 {
        0 => Value::Bool(kani::any()),
        1 => Value::U128(kani::any()),
        2 => Value::I128(kani::any()),
        3 => Value::F32(kani::any()),
        4 => Value::F64(kani::any()),
        5 => Value::StringVal(String::new()),
        _ => Value::Raw(Vec::new()),
    };
    let q: f32 = kani::any();
    let off = if kani::any() { FixedPointValue::I32(kani::any()) } else { FixedPointValue::I64(kani::any()) };
    let has_fp: bool = kani::any();
    let fp = if has_fp { Some(FixedPoint { quantization: q, offset: off }) } else { None };
    let kind = any_kind();
    let fpk = is_fp_kind(&kind);
    let arg = mk(kind, value, fp);
    let r = arg.to_real_value();
    assert!(r.is_none());
    kani::cover!(fpk && has_fp && which % 7 == 1, "fixed-point kind with a 128-bit value");
    std::mem::forget(arg);
}
