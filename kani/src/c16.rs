//! C16 — re-serialising any parsed message is stable.
//!
//! Decided compositionally (DESIGN.md §C16): the writer emits exactly the
//! reference (canonical) encoding of a message value (W, c02w/gen_args) and the
//! parser maps the canonical encoding back to that value (P, c01/gen_args).
//! What remains is that *non-canonical* encodings the parser accepts (dialect:
//! bool with any TYLE, unused / reserved type-info bits, FIXP on kinds that
//! cannot be fixed point, ids with bytes after the first NUL) are mapped to the
//! same message value as their canonical form - so the value the parser
//! returns is one the writer represents faithfully. Sub-type codes and string
//! codings outside the named ranges are covered for all 2^8 / 2^32 codes in C14.
use crate::c01::*;
use crate::refcodec::*;
use crate::shapes::*;
use dlt_core::parse::{dlt_message, ParsedMessage};

/// The canonical encoding parses to the message value described by `bt` (P(shape), C01);
/// the dialect encoding must parse to the same value (field-wise comparison with `bt`;
/// a derived `==` on two parsed messages costs thousands of memcmp unwindings).
fn same_message(s: &Shape, bt: &Built, dialect: &[u8]) {
    same_message_if(s, bt, dialect, true)
}

/// `must_accept = false`: the property only speaks about byte sequences from which the parser RETURNS a message;
/// for forms the crate is free to refuse, a refusal is not a failure (the cover below shows that the current
/// tree accepts the form, so the comparison is exercised).
fn same_message_if(s: &Shape, bt: &Built, dialect: &[u8], must_accept: bool) {
    let b = dlt_message(dialect, None, s.storage);
    match &b {
        Ok((rb, ParsedMessage::Item(mb))) => {
            assert!(rb.len() == 1, "dialect encoding consumes a different length");
            check_headers(mb, s.storage, s.htyp, s.msin, &bt.h, bt.payload_len as u16);
            check_payload(mb, s, bt);
            kani::cover!(true, "dialect form parsed to the canonical value");
        }
        _ => assert!(!must_accept, "dialect encoding rejected"),
    }
    kani::cover!(true, "call returned");
    std::mem::forget(b);
}

macro_rules! c16_harness {
    ($name:ident, $shape:expr, |$d:ident, $ti:ident, $big:ident| $patch:block) => {
        #[kani::proof]
        #[kani::unwind(24)]
        #[kani::stub(std::fmt::format, crate::models::fmt_format_stub)]
        #[kani::stub(core::str::from_utf8, crate::models::from_utf8_stub)]
        fn $name() {
            let s: Shape = $shape;
            let bt = build(&s, 1, None, None);
            let mut $d = bt.buf;
            let $ti = bt.msg_start + headers_len(s.htyp);
            let $big = s.htyp & HTYP_MSBF != 0;
            $patch;
            same_message(&s, &bt, $d.slice());
        }
    };
}

const S_BOOL_LE: Shape = Shape { storage: false, htyp: H_EXT_LE, msin: M_LOG_INFO_V, ids: IDS_FULL, payload: P::Verbose(&[arg(AK::Bool)]) };
const S_U32_BE: Shape = Shape { storage: false, htyp: H_EXT_BE, msin: M_LOG_INFO_V, ids: IDS_FULL, payload: P::Verbose(&[arg(AK::U(4))]) };
const S_RAW_LE: Shape = Shape { storage: false, htyp: H_EXT_LE, msin: M_LOG_INFO_V, ids: IDS_FULL, payload: P::Verbose(&[arg(AK::Raw)]) };
const S_U16_LE: Shape = Shape { storage: false, htyp: H_EXT_LE, msin: M_LOG_INFO_V, ids: IDS_SHORT, payload: P::Verbose(&[arg(AK::U(2))]) };

// bool with TYLE = 1 (what real ECUs emit) and TYLE = 15
c16_harness!(c16_bool_tyle_1, S_BOOL_LE, |d, ti, big| { let _ = big; d.b[ti] |= 0x01; });
c16_harness!(c16_bool_tyle_15, S_BOOL_LE, |d, ti, big| { let _ = big; d.b[ti] |= 0x0f; });
// reserved bits 18..31 and STRU set (big endian: most significant byte first)
c16_harness!(c16_u32_reserved_bits, S_U32_BE, |d, ti, big| { let _ = big; d.b[ti] = 0xff; d.b[ti + 1] |= 0xfc; d.b[ti + 2] |= 0x40; });
// FIXP flag on a kind that cannot be fixed point
c16_harness!(c16_raw_fixp_flag, S_RAW_LE, |d, ti, big| { let _ = big; d.b[ti + 1] |= 0x10; });
// ids: bytes after the first NUL are ignored (APID "E\0xy" == "E")
c16_harness!(c16_id_bytes_after_nul, S_U16_LE, |d, ti, big| {
    let _ = big;
    // IDS_SHORT: apid has 1 byte, ctid 0 bytes; APID field starts 8 bytes before the payload
    d.b[ti - 8 + 2] = 0x78;
    d.b[ti - 8 + 3] = 0x79;
    d.b[ti - 4 + 1] = 0x7a;
});

// name / unit length fields of 0 (no terminator at all - never written by the crate, seen on the wire): the
// parser returns empty texts, the same value as for the canonical "length 1 + NUL" form, so that the
// writer represents it faithfully. The two bytes saved are unused space at the end of the declared payload.
const S_U16V_LE: Shape = Shape { storage: false, htyp: H_EXT_LE, msin: M_LOG_INFO_V, ids: IDS_FULL, payload: P::Verbose(&[arg_v(AK::U(2), 0, 0)]) };
#[kani::proof]
#[kani::unwind(24)]
#[kani::stub(std::fmt::format, crate::models::fmt_format_stub)]
#[kani::stub(core::str::from_utf8, crate::models::from_utf8_stub)]
fn c16_name_unit_length_zero() {
    let s: Shape = S_U16V_LE;
    let mut bt = build(&s, 1, None, None);
    let ti = bt.msg_start + headers_len(s.htyp);
    // the value is literal here: the bytes behind a zero-length field are scanned for a terminator by the
    // parser (control), and symbolic bytes there do not reach a verdict in 15 minutes
    bt.args[0].val = 0x3412;
    let mut d = bt.buf;
    d.b[ti + 4] = 0; // name length 1 -> 0 (little endian: low byte first)
    d.b[ti + 6] = 0; // unit length 1 -> 0
    d.b[ti + 8] = 0x12; // value directly behind the length fields
    d.b[ti + 9] = 0x34;
    d.b[ti + 10] = 0xEE; // two unused bytes at the end of the declared payload
    d.b[ti + 11] = 0xEE;
    same_message_if(&s, &bt, d.slice(), false);
}

// ---------------------------------------------------------------------------
// Re-serialisation of what the parser returned (bytes -> message -> bytes): the
// writer units applied to the *parser's own result* reproduce the canonical
// encoding of the input, segment by segment (standard header, extended header,
// payload). Together with P (canonical bytes parse to that same message) this is
// the stability claim for the shape, decided in one query per shape without
// calling Message::as_bytes (which does not finish, DESIGN.md 9.2).
// ---------------------------------------------------------------------------
fn seg_same(got: &[u8], want: &[u8], from: usize, to: usize) -> bool {
    if got.len() != to - from {
        return false;
    }
    let mut i = 0;
    while i < to - from {
        if got[i] != want[from + i] {
            return false;
        }
        i += 1;
    }
    true
}

/// `canon`: canonical encoding; `input`: what is parsed (canonical or a dialect form of it).
fn reserialise_units(s: &Shape, bt: &Built, input: &[u8]) {
    let canon = bt.buf.slice();
    let r = dlt_message(input, None, s.storage);
    match &r {
        Ok((_, ParsedMessage::Item(m))) => {
            let big = s.htyp & HTYP_MSBF != 0;
            let std_end = bt.msg_start + headers_len(s.htyp & !HTYP_UEH);
            let pay_start = bt.msg_start + headers_len(s.htyp);
            let hb = m.header.as_bytes();
            assert!(seg_same(&hb, canon, bt.msg_start, std_end), "re-serialised standard header differs from the canonical bytes");
            std::mem::forget(hb);
            if let Some(eh) = &m.extended_header {
                let eb = eh.as_bytes();
                assert!(seg_same(&eb, canon, std_end, pay_start), "re-serialised extended header differs from the canonical bytes");
                std::mem::forget(eb);
            }
            let pb = dlt_core::dlt::verif_hooks::payload_as_bytes(&m.payload, big);
            assert!(seg_same(&pb, canon, pay_start, bt.msg_end), "re-serialised payload differs from the canonical bytes");
            std::mem::forget(pb);
            kani::cover!(true, "parsed message re-serialised");
        }
        _ => assert!(false, "encoding rejected"),
    }
    std::mem::forget(r);
}

macro_rules! c16_rt {
    ($name:ident, $uw:expr, $shape:expr) => {
        #[kani::proof]
        #[kani::unwind($uw)]
        #[kani::stub(std::fmt::format, crate::models::fmt_format_stub)]
        #[kani::stub(core::str::from_utf8, crate::models::from_utf8_stub)]
        #[kani::stub(dlt_core::parse::forward_to_next_storage_header, crate::models::forward_stub)]
        fn $name() {
            let s: Shape = $shape;
            let bt = build(&s, 0, None, None);
            reserialise_units(&s, &bt, bt.buf.slice());
        }
    };
}

c16_rt!(c16_rt_control_le, 24, Shape { storage: false, htyp: H_EXT_LE, msin: M_CTRL_RESP, ids: IDS_FULL, payload: P::Control(2) });
c16_rt!(c16_rt_nonverbose_be, 24, Shape { storage: false, htyp: H_EXT_BE, msin: M_LOG_WARN_NV, ids: IDS_FULL, payload: P::NonVerbose(2) });
c16_rt!(c16_rt_nettrace_be, 24, Shape { storage: false, htyp: H_EXT_BE, msin: M_NW_CAN_V, ids: IDS_FULL, payload: P::NetTrace(&[2]) });
c16_rt!(c16_rt_verbose_bool_le, 24, Shape { storage: false, htyp: H_EXT_LE, msin: M_LOG_INFO_V, ids: IDS_FULL, payload: P::Verbose(&[arg(AK::Bool)]) });
c16_rt!(c16_rt_verbose_u16_be, 24, Shape { storage: false, htyp: H_EXT_BE, msin: M_LOG_INFO_V, ids: IDS_SHORT, payload: P::Verbose(&[arg(AK::U(2))]) });
