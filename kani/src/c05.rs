//! C05 — every proper prefix of a valid message is reported incomplete, with
//! a safe hint. Data symbolic; shapes and cut positions enumerated.
use crate::c01::*;
use crate::refcodec::*;
use crate::shapes::*;
use dlt_core::parse::{dlt_consume_msg, dlt_message, DltParseError};

/// All cuts k in [from, to) ∩ [0, total).
pub fn prefixes(s: &Shape, from: usize, to: usize, skipper: bool) {
    let bt = build(s, 0, None, None);
    let total = bt.msg_end;
    let mut k = from;
    while k < to && k < total {
        let input = &bt.buf.b[..k];
        match dlt_message(input, None, s.storage) {
            Err(DltParseError::IncompleteParse { needed }) => {
                if let Some(n) = needed {
                    assert!(n.get() >= 1, "hint of zero bytes");
                    assert!(n.get() <= total - k, "hint larger than the number of missing bytes");
                    kani::cover!(true, "incomplete with a hint");
                }
            }
            Err(_) => assert!(false, "proper prefix of a valid message rejected with a hard error"),
            Ok(_) => assert!(false, "proper prefix of a valid message parsed"),
        }
        if skipper {
            match dlt_consume_msg(input) {
                Ok((_, None)) => assert!(k == 0, "skipper reports 'no message' on a non-empty prefix"),
                Ok((_, Some(_))) => assert!(false, "skipper skipped a message that is not completely there"),
                Err(DltParseError::IncompleteParse { needed }) => {
                    assert!(k >= 1, "skipper reports incomplete on empty input");
                    if let Some(n) = needed {
                        assert!(n.get() >= 1 && n.get() <= total - k, "skipper hint");
                    }
                }
                Err(_) => assert!(false, "skipper: hard error on a prefix of a valid message"),
            }
        }
        k += 1;
    }
    kani::cover!(k > from, "at least one cut position explored");
}

// harnesses: gen_c05.rs (generated: every cut position of every shape, 3 cuts per harness)
