//! C05 — every proper prefix of a valid message is reported incomplete, with
//! a safe hint. Data symbolic; shapes and cut positions enumerated.
use crate::c01::*;
use crate::refcodec::*;
use crate::shapes::*;
use dlt_core::parse::{dlt_consume_msg, dlt_message, DltParseError};

/// All cuts k in [from, to) ∩ [0, total).
pub fn prefixes(s: &Shape, from: usize, to: usize, skipper: bool) {
    let bt = build(s, 0, None, None);
    let total = bt.msg_end;
    let mut k = from;
    while k < to && k < total {
        let input = &bt.buf.b[..k];
        match dlt_message(input, None, s.storage) {
            Err(DltParseError::IncompleteParse { needed }) => {
                if let Some(n) = needed {
                    assert!(n.get() >= 1, "hint of zero bytes");
                    assert!(n.get() <= total - k, "hint larger than the number of missing bytes");
                    kani::cover!(true, "incomplete with a hint");
                }
            }
            Err(_) => assert!(false, "proper prefix of a valid message rejected with a hard error"),
            Ok(_) => assert!(false, "proper prefix of a valid message parsed"),
        }
        if skipper {
            match dlt_consume_msg(input) {
                Ok((_, None)) => assert!(k == 0, "skipper reports 'no message' on a non-empty prefix"),
                Ok((_, Some(_))) => assert!(false, "skipper skipped a message that is not completely there"),
                Err(DltParseError::IncompleteParse { needed }) => {
                    assert!(k >= 1, "skipper reports incomplete on empty input");
                    if let Some(n) = needed {
                        assert!(n.get() >= 1 && n.get() <= total - k, "skipper hint");
                    }
                }
                Err(_) => assert!(false, "skipper: hard error on a prefix of a valid message"),
            }
        }
        k += 1;
    }
    kani::cover!(k > from, "at least one cut position explored");
}

macro_rules! c05_harness {
    ($name:ident, $uw:expr, $shape:expr, $from:expr, $to:expr, $skipper:expr) => {
        #[kani::proof]
        #[kani::unwind($uw)]
        #[kani::stub(std::fmt::format, crate::models::fmt_format_stub)]
        #[kani::stub(core::str::from_utf8, crate::models::from_utf8_stub)]
        #[kani::stub(dlt_core::parse::forward_to_next_storage_header, crate::models::forward_stub)]
        fn $name() {
            let s: Shape = $shape;
            prefixes(&s, $from, $to, $skipper);
        }
    };
}

const S_NV_MIN: Shape = Shape { storage: false, htyp: H_MIN, msin: 0, ids: IDS_FULL, payload: P::NonVerbose(2) };
const S_CTRL_ST: Shape = Shape { storage: true, htyp: H_EXT_LE, msin: M_CTRL_REQ, ids: IDS_FULL, payload: P::Control(0) };
const S_V_BOOL_ALL: Shape = Shape { storage: false, htyp: H_ALL_BE, msin: M_LOG_INFO_V, ids: IDS_SHORT, payload: P::Verbose(&[arg(AK::Bool)]) };
const S_V_STR: Shape = Shape { storage: false, htyp: H_EXT_LE, msin: M_LOG_INFO_V, ids: IDS_SHORT, payload: P::Verbose(&[arg_v(AK::Str, 1, 0)]) };
const S_V_EMPTY: Shape = Shape { storage: false, htyp: H_EXT_LE, msin: M_LOG_INFO_V, ids: IDS_SHORT, payload: P::Verbose(&[]) };
const S_NW_ST: Shape = Shape { storage: true, htyp: H_EXT_BE, msin: M_NW_CAN_V, ids: IDS_FULL, payload: P::NetTrace(&[1]) };

c05_harness!(c05_nonverbose_min, 24, S_NV_MIN, 0, 10, false);
c05_harness!(c05_control_storage_0_16, 40, S_CTRL_ST, 0, 16, true);
c05_harness!(c05_control_storage_16_31, 40, S_CTRL_ST, 16, 31, true);
c05_harness!(c05_verbose_bool_allfields_0_14, 40, S_V_BOOL_ALL, 0, 14, false);
c05_harness!(c05_verbose_bool_allfields_14_31, 40, S_V_BOOL_ALL, 14, 31, false);
c05_harness!(c05_verbose_string_0_12, 40, S_V_STR, 0, 12, false);
c05_harness!(c05_verbose_string_12_27, 40, S_V_STR, 12, 27, false);
c05_harness!(c05_verbose_noargs_shortids, 40, S_V_EMPTY, 0, 14, false);
c05_harness!(c05_nettrace_storage_0_16, 48, S_NW_ST, 0, 16, true);
c05_harness!(c05_nettrace_storage_16_37, 48, S_NW_ST, 16, 37, true);
