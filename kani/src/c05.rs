//! C05 — every proper prefix of a valid message is reported incomplete, with
//! a safe hint. Data symbolic; shapes and cut positions enumerated.
use crate::c01::*;
use crate::refcodec::*;
use crate::shapes::*;
use dlt_core::parse::{dlt_consume_msg, dlt_message, DltParseError};

/// All cuts k in [from, to) ∩ [0, total).
pub fn prefixes(s: &Shape, from: usize, to: usize, skipper: bool) {
    let bt = build(s, 0, None, None);
    let total = bt.msg_end;
    let mut k = from;
    while k < to && k < total {
        let input = &bt.buf.b[..k];
        let r = dlt_message(input, None, s.storage);
        match &r {
            Err(DltParseError::IncompleteParse { needed }) => {
                if let Some(n) = needed {
                    assert!(n.get() >= 1, "hint of zero bytes");
                    assert!(n.get() <= total - k, "hint larger than the number of missing bytes");
                }
                kani::cover!(true, "prefix reported incomplete");
            }
            Err(_) => assert!(false, "proper prefix of a valid message rejected with a hard error"),
            Ok(_) => assert!(false, "proper prefix of a valid message parsed"),
        }
        std::mem::forget(r); // drop glue of the (unreachable) message value is not the subject
        if skipper {
            let c = dlt_consume_msg(input);
            match &c {
                Ok((_, None)) => assert!(k == 0, "skipper reports 'no message' on a non-empty prefix"),
                Ok((_, Some(_))) => assert!(false, "skipper skipped a message that is not completely there"),
                Err(DltParseError::IncompleteParse { needed }) => {
                    assert!(k >= 1, "skipper reports incomplete on empty input");
                    if let Some(n) = needed {
                        assert!(n.get() >= 1 && n.get() <= total - k, "skipper hint");
                    }
                }
                Err(_) => assert!(false, "skipper: hard error on a prefix of a valid message"),
            }
            std::mem::forget(c);
        }
        k += 1;
    }
    kani::cover!(k > from, "at least one cut position explored");
}

// harnesses: gen_c05.rs (generated: every cut position of every shape, 3 cuts per harness)

// ---- cuts inside the headers, at unit level ---------------------------------------
use dlt_core::parse::verif_hooks as ph;

/// Standard header of a message with the given literal HTYP and symbolic field
/// data, cut at every length in [from, to): reported incomplete with a hint
/// between 1 and the number of missing header bytes.
fn std_header_prefixes(htyp: u8, from: usize, to: usize) {
    let d: [u8; 14] = kani::any();
    // ECU id field: "Ec" + two NULs (literal, see shapes.rs), the rest symbolic
    let buf = [htyp, d[0], 0, 40, b'E', b'c', 0, 0, d[1], d[2], d[3], d[4], d[5], d[6], d[7], d[8]];
    let std_len = crate::refcodec::headers_len(htyp & !crate::refcodec::HTYP_UEH);
    let mut k = from;
    while k < to && k < std_len {
        let r = ph::standard_header(&buf[..k]);
        match &r {
            Err(nom::Err::Incomplete(n)) => {
                if let nom::Needed::Size(x) = n {
                    assert!(x.get() >= 1 && x.get() <= std_len - k, "hint larger than the missing header bytes");
                }
                kani::cover!(true, "header prefix incomplete");
            }
            _ => assert!(false, "prefix of a standard header not reported incomplete"),
        }
        std::mem::forget(r);
        k += 1;
    }
}

/// Extended header (literal MSIN / NOAR, ids "A" and "C" with zero padding, i.e.
/// cuts inside the padding included), cut at every length in [from, to).
fn ext_header_prefixes(from: usize, to: usize) {
    let buf = [0x41u8, 0, b'A', 0, 0, 0, b'C', 0, 0, 0];
    let mut k = from;
    while k < to && k < 10 {
        let r = ph::extended_header(&buf[..k]);
        match &r {
            Err(nom::Err::Incomplete(n)) => {
                if let nom::Needed::Size(x) = n {
                    assert!(x.get() >= 1 && x.get() <= 10 - k, "hint larger than the missing header bytes");
                }
                kani::cover!(true, "header prefix incomplete");
            }
            _ => assert!(false, "prefix of an extended header not reported incomplete"),
        }
        std::mem::forget(r);
        k += 1;
    }
}

macro_rules! c05_hdr {
    ($name:ident, $body:expr) => {
        #[kani::proof]
        #[kani::unwind(20)]
        #[kani::stub(std::fmt::format, crate::models::fmt_format_stub)]
        #[kani::stub(core::str::from_utf8, crate::models::from_utf8_stub)]
        fn $name() {
            $body;
        }
    };
}
c05_hdr!(c05_hdr_std_min_0_4, std_header_prefixes(0x20, 0, 4));
c05_hdr!(c05_hdr_std_all_0_4, std_header_prefixes(0x3d, 0, 4));
c05_hdr!(c05_hdr_std_all_4_8, std_header_prefixes(0x3d, 4, 8));
c05_hdr!(c05_hdr_std_all_8_12, std_header_prefixes(0x3d, 8, 12));
c05_hdr!(c05_hdr_std_all_12_16, std_header_prefixes(0x3d, 12, 16));
c05_hdr!(c05_hdr_std_weid_4_8, std_header_prefixes(0x26, 4, 8));
c05_hdr!(c05_hdr_ext_0_5, ext_header_prefixes(0, 5));
c05_hdr!(c05_hdr_ext_5_10, ext_header_prefixes(5, 10));

// ---- probes: whole-message cuts inside the headers / inside a verbose payload (see DESIGN.md 9.2, 9.7) ----
macro_rules! c05_whole {
    ($name:ident, $shape:expr, $from:expr, $to:expr) => {
        #[kani::proof]
        #[kani::unwind(48)]
        #[kani::stub(std::fmt::format, crate::models::fmt_format_stub)]
        #[kani::stub(core::str::from_utf8, crate::models::from_utf8_stub)]
        #[kani::stub(dlt_core::parse::forward_to_next_storage_header, crate::models::forward_stub)]
        fn $name() {
            let s: Shape = $shape;
            prefixes(&s, $from, $to, false);
        }
    };
}
const S_VB_ALL: Shape = Shape { storage: false, htyp: H_ALL_BE, msin: M_LOG_INFO_V, ids: IDS_SHORT, payload: P::Verbose(&[arg(AK::Bool)]) };
c05_whole!(c05_whole_verbose_bool_cut_2, S_VB_ALL, 2, 3);
c05_whole!(c05_whole_verbose_bool_cut_9, S_VB_ALL, 9, 10);
c05_whole!(c05_whole_verbose_bool_cut_20, S_VB_ALL, 20, 21);
c05_whole!(c05_whole_verbose_bool_cut_26, S_VB_ALL, 26, 27);
c05_whole!(c05_whole_verbose_bool_cut_28, S_VB_ALL, 28, 29);
c05_whole!(c05_whole_verbose_bool_cut_30, S_VB_ALL, 30, 31);
