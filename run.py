#!/usr/bin/env python3
"""Driver for the solver-based checks of dlt-core (see DESIGN.md).

  ./run.py <PROPERTY> [--tier quick|thorough] [--jobs N] [--only SUBSTR] [--keep]
  ./run.py <PROPERTY> --replay <case.json>
  ./run.py --setup

Every run: snapshot /repo's *working tree* into a private scratch directory,
copy the harness crate next to it, compile the selected harnesses with Kani
(`cargo kani --only-codegen`), then run Kani's own goto-cc / goto-instrument /
cbmc pipeline for every harness in parallel, each under a timeout and an
address-space limit, and decide every harness from CBMC's JSON verdict.
A failing harness is re-run through Kani's concrete playback and the generated
test is executed natively against the same snapshot (dev and release
profiles); only a reproduced violation is reported.

Exit status: 0 = property held on everything explored (known findings are
printed as KNOWN-FINDING lines), 1 = VIOLATION (reproduced natively),
2 = inconclusive (timeout, out of memory, vacuous harness, tool error,
non-reproducing counterexample).
"""
import argparse
import concurrent.futures as cf
import fcntl
import json
import os
import re
import resource
import shutil
import signal
import subprocess
import sys
import time

VERIF = os.path.dirname(os.path.abspath(__file__))
REPO = os.environ.get("VERIF_REPO", "/repo")
KANI_HOME = os.path.expanduser("~/.kani/kani-0.68.0")
KANI_LIB_C = os.path.join(KANI_HOME, "library/kani/kani_lib.c")
CACHE = os.path.join(VERIF, ".cache")
TMPBASE = os.path.join(os.environ.get("TMPDIR", "/tmp"), "dltverif")
NSLOTS = 6
EVID = os.environ.get("VERIF_EVIDENCE_DIR", os.path.join(VERIF, "evidence"))
CASES = os.environ.get("VERIF_CASES_DIR", os.path.join(VERIF, "replay", "cases"))

sys.path.insert(0, VERIF)
import registry  # noqa: E402


def log(*a):
    print(*a, file=sys.stderr, flush=True)


# --------------------------------------------------------------------------
# workspace
# --------------------------------------------------------------------------
class Work:
    """A private scratch directory (snapshot + harness crate + logs) bound to
    one cache slot (a persistent cargo target dir holding the dependency
    builds, so that only dlt-core and the harness crate are rebuilt)."""

    def __init__(self, keep=False):
        os.makedirs(CACHE, exist_ok=True)
        os.makedirs(TMPBASE, exist_ok=True)
        self.keep = keep
        self.lockf = None
        for rnd in range(600):
            for k in range(NSLOTS):
                f = open(os.path.join(CACHE, f"slot{k}.lock"), "w")
                try:
                    fcntl.flock(f, fcntl.LOCK_EX | fcntl.LOCK_NB)
                    self.lockf, self.slot = f, k
                    break
                except OSError:
                    f.close()
            if self.lockf:
                break
            time.sleep(2)
        if not self.lockf:
            raise RuntimeError("no free work slot")
        self.dir = os.path.join(TMPBASE, f"slot{self.slot}")
        shutil.rmtree(self.dir, ignore_errors=True)
        os.makedirs(self.dir)
        self.repo = os.path.join(self.dir, "repo")
        self.h = os.path.join(self.dir, "h")
        self.out = os.path.join(self.dir, "out")
        os.makedirs(self.out)
        self.target = os.path.join(CACHE, f"kt{self.slot}")

    def snapshot(self):
        # working tree as it is now (tracked or not), without build output
        subprocess.run(
            ["rsync", "-a", "--no-times", "--exclude", "/target", "--exclude", "/.git", REPO + "/", self.repo + "/"],
            check=True,
        )
        shutil.copytree(os.path.join(VERIF, "kani"), self.h, ignore=shutil.ignore_patterns("target", "Cargo.toml.in"))
        t = open(os.path.join(VERIF, "kani", "Cargo.toml.in")).read().replace("@REPO@", self.repo)
        open(os.path.join(self.h, "Cargo.toml"), "w").write(t)
        lock = os.path.join(self.repo, "Cargo.lock")
        if not os.path.exists(lock):  # Cargo.lock is git-ignored in dlt-core: fresh checkouts lack it
            subprocess.run(["cargo", "generate-lockfile", "--offline"], cwd=self.repo, env=env_offline(), check=True,
                           stdout=subprocess.DEVNULL, stderr=subprocess.DEVNULL)
        shutil.copy(lock, os.path.join(self.h, "Cargo.lock"))

    def close(self):
        if not self.keep:
            shutil.rmtree(self.dir, ignore_errors=True)
            # drop per-run harness artefacts from the cache, keep dependency builds
            shutil.rmtree(os.path.join(self.target, "kani/x86_64-unknown-linux-gnu/debug/build/dlt-verif"), ignore_errors=True)
        if self.lockf:
            self.lockf.close()
            self.lockf = None


def env_offline():
    e = dict(os.environ)
    e["CARGO_NET_OFFLINE"] = "true"
    e.pop("RUSTFLAGS", None)
    e.pop("CARGO_TARGET_DIR", None)
    return e


# --------------------------------------------------------------------------
# Kani build + per-harness CBMC pipeline
# --------------------------------------------------------------------------
def kani_build(work, harnesses):
    """cargo kani --only-codegen for the selected harnesses; returns
    {pretty_name: metadata} for them."""
    cmd = ["cargo", "kani", "--only-codegen", "-Z", "stubbing", "--no-assertion-reach-checks", "--exact", "--target-dir", work.target]
    for h in harnesses:
        cmd += ["--harness", h]
    t0 = time.time()
    logp = os.path.join(work.out, "build.log")
    with open(logp, "w") as lf:
        r = subprocess.run(cmd, cwd=work.h, env=env_offline(), stdout=lf, stderr=subprocess.STDOUT)
    dt = time.time() - t0
    if r.returncode != 0:
        tail = "".join(open(logp).readlines()[-60:])
        raise RuntimeError(f"cargo kani build failed (exit {r.returncode}):\n{tail}")
    bdir = os.path.join(work.target, "kani/x86_64-unknown-linux-gnu/debug/build/dlt-verif")
    found = {}
    newest = []
    for d in os.listdir(bdir):
        od = os.path.join(bdir, d, "out")
        if not os.path.isdir(od):
            continue
        for f in os.listdir(od):
            if f.endswith(".kani-metadata.json"):
                p = os.path.join(od, f)
                newest.append((os.path.getmtime(p), p))
    newest.sort(reverse=True)
    for _, p in newest:
        if os.path.getmtime(p) < t0 - 2:
            continue
        md = json.load(open(p))
        for ph in md["proof_harnesses"]:
            if ph["pretty_name"] in harnesses and ph["pretty_name"] not in found:
                found[ph["pretty_name"]] = ph
    missing = [h for h in harnesses if h not in found]
    if missing:
        raise RuntimeError(f"harnesses not produced by the build: {missing}")
    return found, dt


def _limits(mem_gb):
    """Own process group (so a timeout can kill the whole tree). No RLIMIT_AS: CBMC/CaDiCaL reserve
    far more address space than they touch, and an address-space cap made 40-second harnesses fail with
    'out of memory'; resident memory is policed by the watchdog in run_cmd instead."""
    def f():
        os.setsid()
    return f


def _rss_gb(pid):
    try:
        for ln in open(f"/proc/{pid}/status"):
            if ln.startswith("VmRSS:"):
                return int(ln.split()[1]) / (1 << 20)
    except OSError:
        pass
    return 0.0


def run_cmd(cmd, logf, timeout, mem_gb=12, stdout_path=None):
    """Run cmd under a wall-clock limit and a resident-memory limit (polled). rc: exit status,
    'timeout' or 'oom'."""
    t0 = time.time()
    so = open(stdout_path, "w") if stdout_path else logf
    rc = None
    try:
        p = subprocess.Popen(cmd, stdout=so, stderr=logf, preexec_fn=_limits(mem_gb))
        while True:
            try:
                rc = p.wait(timeout=2)
                break
            except subprocess.TimeoutExpired:
                pass
            over_time = time.time() - t0 > timeout
            over_mem = _rss_gb(p.pid) > mem_gb
            if over_time or over_mem:
                try:
                    os.killpg(p.pid, signal.SIGKILL)
                except ProcessLookupError:
                    pass
                p.wait()
                rc = "timeout" if over_time else "oom"
                break
    finally:
        if stdout_path:
            so.close()
    return rc, time.time() - t0


CBMC_BASE = [
    "--no-malloc-may-fail", "--no-undefined-shift-check", "--no-signed-overflow-check", "--nan-check",
    "--no-self-loops-to-assumptions", "--no-pointer-primitive-check", "--object-bits", "16",
]


def verify_harness(work, spec, meta):
    """Run Kani's post-compile pipeline for one harness and classify the
    result. Returns a dict."""
    name = spec["name"]
    safe = re.sub(r"[^A-Za-z0-9_]", "_", name)
    hd = os.path.join(work.out, safe)
    os.makedirs(hd, exist_ok=True)
    goto = os.path.join(hd, "h.out")
    res = {"harness": name, "status": "ERROR", "detail": "", "failed": [], "covers": [], "stubs": meta["attributes"].get("stubs", []),
           "unwind": meta["attributes"].get("unwind_value")}
    t_start = time.time()
    with open(os.path.join(hd, "pipeline.log"), "w") as lf:
        steps = [
            ["goto-cc", meta["goto_file"], KANI_LIB_C, "-o", goto],
            ["goto-cc", goto, "--function", meta["mangled_name"], "-o", goto],
            ["goto-instrument", "--add-library", "--no-malloc-may-fail", goto, goto],
            ["goto-instrument", "--generate-function-body-options", "assert-false-assume-false", "--generate-function-body", ".*",
             "--drop-unused-functions", goto, goto],
            ["goto-instrument", "--ensure-one-backedge-per-target", goto, goto],
        ]
        for st in steps:
            rc, _ = run_cmd(st, lf, 600, 12)
            if rc != 0:
                res["detail"] = f"{st[0]} failed rc={rc}"
                res["wall_s"] = time.time() - t_start
                return res
        cb = ["cbmc"] + CBMC_BASE
        if not spec.get("mem_checks", False):
            cb += ["--no-bounds-check", "--no-pointer-check"]
        uw = meta["attributes"].get("unwind_value")
        if uw is not None:
            cb += ["--unwind", str(uw)]
        cb += ["--sat-solver", spec.get("solver", "cadical"), "--slice-formula"]
        cb += spec.get("cbmc_args", [])
        cb += [goto, "--verbosity", "8", "--json-ui"]
        jpath = os.path.join(hd, "cbmc.json")
        rc, dt = run_cmd(cb, lf, spec.get("timeout", 600), spec.get("mem_gb", 12), stdout_path=jpath)
    res["cbmc_s"] = round(dt, 2)
    res["wall_s"] = round(time.time() - t_start, 2)
    if rc == "timeout":
        res["status"] = "TIMEOUT"
        res["detail"] = f"cbmc exceeded {spec.get('timeout', 600)} s"
        return res
    if rc == "oom":
        res["status"] = "ERROR"
        res["detail"] = f"cbmc exceeded {spec.get('mem_gb', 12)} GB resident memory (killed)"
        return res
    try:
        data = json.load(open(jpath))
    except Exception as e:  # truncated JSON: crash / OOM
        res["status"] = "ERROR"
        res["detail"] = f"cbmc rc={rc}, unreadable JSON ({e}) - out of memory or crash"
        return res
    results = None
    stats = {}
    errors = []
    for e in data:
        if "result" in e:
            results = e["result"]
        elif "messageText" in e:
            t = e["messageText"]
            m = re.search(r"size of program expression: (\d+) steps", t)
            if m:
                stats["program_steps"] = int(m.group(1))
            m = re.search(r"Generated (\d+) VCC\(s\), (\d+) remaining after simplification", t)
            if m:
                stats["vccs"] = int(m.group(1))
                stats["vccs_remaining"] = int(m.group(2))
            m = re.search(r"(\d+) variables, (\d+) clauses", t)
            if m:
                stats["sat_variables"] = int(m.group(1))
                stats["sat_clauses"] = int(m.group(2))
            m = re.search(r"Runtime decision procedure: ([0-9.]+)s", t)
            if m:
                stats["decision_procedure_s"] = stats.get("decision_procedure_s", 0.0) + float(m.group(1))
            m = re.search(r"Runtime Symex: ([0-9.]+)s", t)
            if m:
                stats["symex_s"] = float(m.group(1))
            if e.get("messageType") == "ERROR":
                errors.append(t)
    res["stats"] = stats
    if results is None:
        res["status"] = "ERROR"
        res["detail"] = f"cbmc rc={rc}, no result section; errors={errors[:3]}"
        return res
    n_props = 0
    failed, covers, unwind_fail, unsupported = [], [], [], []
    for r in results:
        sl = r.get("sourceLocation", {})
        cls = sl.get("propertyClass") or ""
        desc = r.get("description", "")
        st = r.get("status")
        rec = {"property": r.get("property"), "class": cls, "description": desc, "status": st,
               "function": sl.get("function", ""), "file": sl.get("file", ""), "line": sl.get("line", "")}
        if cls == "cover":
            covers.append({"description": desc, "line": sl.get("line", ""), "satisfied": st == "FAILURE"})
            continue
        n_props += 1
        if st == "FAILURE":
            if cls == "unwind" or "unwinding assertion" in desc:
                unwind_fail.append(rec)
            elif cls == "unsupported_construct":
                unsupported.append(rec)
            else:
                failed.append(rec)
        elif st != "SUCCESS":
            errors.append(f"unexpected status {st} for {r.get('property')}")
    res["n_properties"] = n_props
    res["covers"] = covers
    res["failed"] = failed
    if errors:
        res["status"] = "ERROR"
        res["detail"] = "; ".join(errors[:3])
    elif unsupported:
        res["status"] = "UNDETERMINED"
        res["detail"] = "unsupported construct reachable: " + unsupported[0]["description"][:120]
    elif unwind_fail and spec.get("nontermination_fns") and all(any(n in u["function"] for n in spec["nontermination_fns"]) for u in unwind_fail):
        # the loop is required to terminate within the bound (the event sequence is finite and ends in Eof forever):
        # a failing unwinding assertion in it is a non-termination counterexample, not a too-small bound
        res["status"] = "FAIL"
        for u in unwind_fail:
            u["description"] = "loop does not terminate within the bound: " + u["description"]
        res["failed"] = unwind_fail
        res["detail"] = "non-termination: " + "; ".join(f"{u['function'][:80]}" for u in unwind_fail[:3])
    elif unwind_fail:
        res["status"] = "UNWIND"
        res["detail"] = f"unwinding assertion failed ({len(unwind_fail)}): bound {uw} too small: " + unwind_fail[0]["function"]
    elif failed:
        res["status"] = "FAIL"
        res["detail"] = "; ".join(f"{f['description'][:90]} @{os.path.basename(f['file'])}:{f['line']}" for f in failed[:4])
    else:
        allow = spec.get("allow_unsat_covers", [])
        unsat = [c for c in covers if not c["satisfied"] and not any(a in c["description"] for a in allow)]
        if unsat:
            res["status"] = "VACUOUS"
            res["detail"] = "cover not satisfiable: " + "; ".join(c["description"][:80] for c in unsat[:4])
        else:
            res["status"] = "PASS"
    return res


# --------------------------------------------------------------------------
# counterexample -> native replay (Kani concrete playback)
# --------------------------------------------------------------------------
def concrete_playback(work, spec):
    """Ask Kani itself for a concrete counterexample of a failing harness and
    return the generated unit test source (or None)."""
    name = spec["name"]
    cmd = ["cargo", "kani", "-Z", "stubbing", "-Z", "concrete-playback", "--concrete-playback=print", "--no-assertion-reach-checks",
           "--exact", "--harness", name, "--target-dir", work.target]
    if not spec.get("mem_checks", False):
        cmd += ["--no-memory-safety-checks"]
    # same CBMC field-sensitivity setting as the verification run (without it the trace run of a
    # 9-second harness needed 30 GB); must come last: --cbmc-args swallows the rest of the line
    if spec.get("cbmc_args"):
        cmd += ["-Z", "unstable-options", "--cbmc-args"] + spec.get("cbmc_args", [])
    logp = os.path.join(work.out, re.sub(r"[^A-Za-z0-9_]", "_", name), "playback_gen.log")
    with open(logp, "w") as lf:
        try:
            subprocess.run(cmd, cwd=work.h, env=env_offline(), stdout=lf, stderr=subprocess.STDOUT, timeout=spec.get("timeout", 600) * 2 + 300,
                           preexec_fn=_limits(24))
        except subprocess.TimeoutExpired:
            return None
    txt = open(logp).read()
    tests = re.findall(r"```\n(.*?)```", txt, re.S)
    # Kani also emits one test per satisfied cover: keep those generated for failed checks
    bad = [t for t in tests if "`cover`" not in t.split("#[test]")[0]]
    if not bad:
        # Kani sometimes emits tests only for the satisfied covers (seen when the failing assertion does not depend
        # on any symbolic value). Their input vectors are still complete inputs of the harness: replaying them natively
        # is sound - the native run decides whether the violation is real - so they are used as candidates.
        bad = tests
    if not bad:
        return None
    return "\n".join(bad[:3])


def inject_and_run_playback(work, spec, test_src):
    """Insert the generated test into the module of the harness and run it
    natively (dev and release). Returns {profile: 'fails'|'passes'|'error'}."""
    name = spec["name"]
    mod = name.split("::")[0]
    path = os.path.join(work.h, "src", mod + ".rs")
    os.makedirs(os.path.join(work.out, re.sub(r"[^A-Za-z0-9_]", "_", name)), exist_ok=True)
    tnames = re.findall(r"fn (kani_concrete_playback_\w+)", test_src)
    src = open(path).read()
    if tnames[0] not in src:
        open(path, "a").write("\n" + test_src + "\n")
    out = {}
    for prof in ("dev", "release"):
        e = env_offline()
        e["CARGO_TARGET_DIR"] = os.path.join(work.target, "playback-" + prof)
        if prof == "dev":
            # Kani's own playback flow (dev profile, overflow checks on: what Kani models)
            cmd = ["cargo", "kani", "playback", "-Z", "concrete-playback", "--", "kani_concrete_playback_", "--nocapture", "--test-threads", "1"]
        else:
            # the same cargo-test invocation that `cargo kani playback` issues, but with the
            # release profile and overflow checks off: what users of the crate run
            pb = os.path.join(KANI_HOME, "playback")
            flags = ["-Coverflow-checks=off", "-Zunstable-options", "-Ztrim-diagnostic-paths=no", "-Zhuman_readable_cgu_names",
                     "-Zalways-encode-mir", "--cfg=kani", "-Zcrate-attr=feature(register_tool)", "-Zcrate-attr=register_tool(kanitool)",
                     "--force-warn", "unstable_features", "--sysroot", pb, "-L", os.path.join(pb, "lib"), "--extern", "force:kani",
                     "--extern", "noprelude,nounused:std=" + os.path.join(pb, "lib", "libstd.rlib")]
            e["CARGO_ENCODED_RUSTFLAGS"] = "\x1f".join(flags)
            e["RUSTC"] = os.path.join(KANI_HOME, "bin", "kani-compiler")
            e["CARGO_TERM_PROGRESS_WHEN"] = "never"
            cmd = [os.path.join(KANI_HOME, "toolchain", "bin", "cargo"), "test", "--release", "--target", "x86_64-unknown-linux-gnu",
                   "-Zhost-config", "-Ztarget-applies-to-host", '--config=host.rustflags=["--cfg=kani_host"]', "--",
                   "kani_concrete_playback_", "--nocapture", "--test-threads", "1"]
        logp = os.path.join(work.out, re.sub(r"[^A-Za-z0-9_]", "_", name), f"playback_{prof}.log")
        with open(logp, "w") as lf:
            try:
                r = subprocess.run(cmd, cwd=work.h, env=e, stdout=lf, stderr=subprocess.STDOUT, timeout=1200)
            except subprocess.TimeoutExpired:
                out[prof] = "timeout"
                continue
        txt = open(logp).read()
        if re.search(r"test result: ok\. [1-9]\d* passed; 0 failed", txt):
            out[prof] = "passes"
        elif re.search(r"test result: FAILED|panicked at|process didn't exit successfully|SIGABRT|SIGSEGV", txt) and "error: could not compile" not in txt and "error[E" not in txt:
            out[prof] = "fails"
            mm = re.search(r"panicked at ([^\n]*)\n([^\n]*)", txt)
            if mm:
                out[prof + "_panic"] = (mm.group(1) + " " + mm.group(2))[:300]
        else:
            out[prof] = "error"
    return out


def fibex_replay(work, case):
    """Event-level counterexamples (end of file inside <PDU>/<FRAME>) are turned into
    truncated documents and loaded natively in a child process under a wall-clock limit."""
    import smt.engine as smt_engine
    bins = smt_engine.build_native(work, log)
    out = {"runs": []}
    for i, doc in enumerate(case["documents"]):
        path = os.path.join(work.dir, f"trunc{i}.xml")
        open(path, "w").write(doc)
        for prof in ("dev", "release"):
            try:
                r = subprocess.run([bins[prof], "fibex", path], stdout=subprocess.PIPE, stderr=subprocess.PIPE, text=True, timeout=10)
                verdict = "returns:" + r.stdout.strip() if r.returncode == 0 else f"crash rc={r.returncode}"
            except subprocess.TimeoutExpired:
                verdict = "hang (>10 s)"
            out["runs"].append({"document": i, "profile": prof, "verdict": verdict})
            if not verdict.startswith("returns:") and not out.get("reproduced"):
                out["reproduced"] = f"document {i} [{prof}]: {verdict}"
    return out


# --------------------------------------------------------------------------
# known findings
# --------------------------------------------------------------------------
def load_known():
    p = os.path.join(VERIF, "known_findings.json")
    if not os.path.exists(p):
        return []
    return json.load(open(p)).get("findings", [])


def match_known(known, prop, harness, failed_rec):
    """A failed CBMC property is covered by a known finding iff the finding is
    'open' (not 'fixed') for this property and its role key matches: harness
    name, the function in which the check failed, and the description."""
    for k in known:
        if k.get("state") != "open" or k["property"] != prop:
            continue
        key = k["key"]
        if key.get("harness") and key["harness"] != harness:
            continue
        if key.get("function") and key["function"] not in failed_rec.get("function", ""):
            continue
        if key.get("description") and key["description"] not in failed_rec.get("description", ""):
            continue
        return k
    return None


# --------------------------------------------------------------------------
# main flows
# --------------------------------------------------------------------------
def write_evidence(prop, tier, seed, pdef, results, extra, wall, violations):
    os.makedirs(EVID, exist_ok=True)
    n_queries = sum(r.get("n_properties", 0) + len(r.get("covers", [])) for r in results) + extra.get("smt_queries", 0)
    sat_covers = []
    for r in results:
        for c in r.get("covers", []):
            if c["satisfied"]:
                sat_covers.append(f"{r['harness']}: {c['description']}")
    passed = [r for r in results if r["status"] == "PASS"]
    samples = []
    for r in results[:40]:
        samples.append({"harness": r["harness"], "status": r["status"], "unwind": r.get("unwind"), "cbmc_s": r.get("cbmc_s"),
                        "properties_checked": r.get("n_properties"), "covers_satisfied": sum(1 for c in r.get("covers", []) if c["satisfied"]),
                        "stats": r.get("stats", {}), "what": r.get("what", "")})
    samples += extra.get("samples", [])
    distinct = len(set(sat_covers)) + extra.get("distinct_nontrivial", 0)
    ev = {
        "property_id": prop,
        "tier": tier,
        "seed": seed,
        "level": pdef.get("level", "model_checking"),
        "coverage": {
            "evaluations": max(1, n_queries),
            "distinct_nontrivial": distinct,
            "rule": "evaluation = one solver-decided proof obligation (a CBMC property or cover query of a harness, or an SMT query); "
                    "distinct non-trivial = distinct reachability witnesses (kani::cover! points / SMT sanity queries) that the solver "
                    "showed satisfiable in a harness whose assertions all hold, i.e. behaviours the property talks about that are "
                    "provably reached inside the bound",
            "samples": samples,
            "obligations": n_queries,
            "discharged": sum(r.get("n_properties", 0) + len(r.get("covers", [])) for r in passed) + extra.get("smt_discharged", 0),
            "checker_cmd": "cargo kani --only-codegen (Kani 0.68.0) + goto-cc/goto-instrument + cbmc 6.11.0 --sat-solver cadical; " + extra.get("checker_cmd", ""),
            "trusted_base": pdef.get("trusted_base", []) + ["Kani 0.68 MIR->goto translation", "CBMC 6.11 + CaDiCaL", "harness oracles in /verif/kani/src"],
            "functions_encoded": pdef.get("functions", []),
            "bounds": pdef.get("bounds", ""),
            "outside_bounds": pdef.get("outside", ""),
            "harnesses_total": len(results),
            "harnesses_passed": len(passed),
            "harness_results": {r["harness"]: r["status"] + ((": " + r["detail"]) if r["detail"] else "") for r in results},
            "stubs_in_force": sorted({f"{s['original']} -> {s['replacement']}" for r in results for s in r.get("stubs", []) if isinstance(s, dict)}),
            "solver_time_s": round(sum(r.get("cbmc_s", 0) or 0 for r in results) + extra.get("smt_s", 0), 2),
            "reachability_witnesses": sorted(set(sat_covers))[:200],
            "exhaustive": bool(pdef.get("exhaustive", False)),
        },
        "assumptions": pdef.get("assumptions", []),
        "wall_s": round(wall, 2),
        "violations": violations,
    }
    ev["coverage"].update(extra.get("coverage", {}))
    with open(os.path.join(EVID, f"{prop}.json"), "w") as f:
        json.dump(ev, f, indent=1)


def select(pdef, tier, only):
    hs = []
    for h in pdef.get("harnesses", []):
        if tier == "quick" and h.get("tier", "quick") != "quick":
            continue
        if only and only not in h["name"]:
            continue
        hs.append(h)
    return hs


def run_property(prop, tier, jobs, only, keep, seed):
    pdef = registry.PROPS[prop]
    t0 = time.time()
    specs = select(pdef, tier, only)
    known = load_known()
    work = Work(keep=keep)
    results = []
    extra = {}
    exit_code = 0
    violations = 0
    printed_known = set()
    try:
        work.snapshot()
        # ---- SMT side channel (C17) ----
        if pdef.get("smt") and not only:
            import smt.engine as smt_engine
            sres = smt_engine.run(prop, pdef, work, tier, log)
            extra.update(sres.get("extra", {}))
            for v in sres.get("violations", []):
                k = None
                for kk in known:
                    if kk.get("state") == "open" and kk["property"] == prop and kk["key"].get("smt") == v["key"]:
                        k = kk
                if k:
                    if k["id"] not in printed_known:
                        print(f"KNOWN-FINDING: property={prop} {k['what']}")
                        printed_known.add(k["id"])
                else:
                    if v.get("reproduced"):
                        print(f"VIOLATION property={prop} replay={v['replay']}")
                        violations += 1
                        exit_code = max(exit_code, 1)
                    else:
                        log(f"counterexample for {v['key']} did not reproduce natively: encoding suspect")
                        exit_code = max(exit_code, 2)
            if sres.get("inconclusive"):
                log("SMT engine inconclusive: " + str(sres["inconclusive"]))
                exit_code = max(exit_code, 2)
        # ---- Kani harnesses ----
        if specs:
            names = [s["name"] for s in specs]
            metas, bdt = kani_build(work, names)
            log(f"[{prop}] built {len(names)} harnesses in {bdt:.0f}s; running with {jobs} jobs")
            extra.setdefault("coverage", {})["kani_build_s"] = round(bdt, 1)
            order = sorted(specs, key=lambda s: -s.get("timeout", 600))
            with cf.ThreadPoolExecutor(max_workers=jobs) as ex:
                futs = {ex.submit(verify_harness, work, s, metas[s["name"]]): s for s in order}
                for fu in cf.as_completed(futs):
                    s = futs[fu]
                    try:
                        r = fu.result()
                    except Exception as e:  # infrastructure
                        r = {"harness": s["name"], "status": "ERROR", "detail": repr(e), "failed": [], "covers": []}
                    r["what"] = s.get("what", "")
                    results.append(r)
                    log(f"  {r['status']:<12} {r['harness']}  ({r.get('cbmc_s', '?')}s) {r['detail'][:200]}")
            results.sort(key=lambda r: r["harness"])
            byname = {s["name"]: s for s in specs}
            replayed = {}  # failed-check key -> (reproduced?, case path, profiles)
            for r in sorted(results, key=lambda r: r.get("cbmc_s") or 0):
                if r["status"] == "PASS":
                    continue
                if r["status"] != "FAIL":
                    exit_code = max(exit_code, 2)
                    continue
                unknown = []
                for f in r["failed"]:
                    k = match_known(known, prop, r["harness"], f)
                    if k:
                        if k["id"] not in printed_known:
                            print(f"KNOWN-FINDING: property={prop} {k['what']}")
                            printed_known.add(k["id"])
                    else:
                        unknown.append(f)
                if not unknown:
                    r["status"] = "KNOWN"
                    continue
                # new violation candidate: replay natively (once per distinct failing check)
                ckey = (unknown[0]["function"], unknown[0]["description"], unknown[0]["line"])
                if ckey in replayed:
                    ok, cpath0, profs0 = replayed[ckey]
                    if ok:
                        print(f"VIOLATION property={prop} replay={cpath0}  harness={r['harness']} same_check_as_replayed reproduced_in={profs0} check={unknown[0]['description'][:120]!r}")
                        violations += 1
                        exit_code = max(exit_code, 1)
                    else:
                        exit_code = max(exit_code, 2)
                    continue
                spec = byname[r["harness"]]
                log(f"  replaying counterexample of {r['harness']} natively ...")
                if spec.get("replay") == "fibex_truncated":
                    os.makedirs(CASES, exist_ok=True)
                    cpath = os.path.join(CASES, f"{prop}-{re.sub(r'[^A-Za-z0-9_]', '_', r['harness'])}.json")
                    case = {"property": prop, "harness": r["harness"], "engine": "fibex", "failed_checks": unknown,
                            "documents": ['<?xml version="1.0"?>\n<FIBEX><ELEMENTS><PDUS><PDU ID="P1"><SHORT-NAME>x</SHORT-NAME>',
                                          '<?xml version="1.0"?>\n<FIBEX><ELEMENTS><FRAMES><FRAME ID="F1"><SHORT-NAME>x</SHORT-NAME>']}
                    case["native"] = fibex_replay(work, case)
                    json.dump(case, open(cpath, "w"), indent=1)
                    if case["native"].get("reproduced"):
                        print(f"VIOLATION property={prop} replay={cpath}  harness={r['harness']} reproduced={case['native']['reproduced']} check={unknown[0]['description'][:120]!r}")
                        violations += 1
                        exit_code = max(exit_code, 1)
                        replayed[ckey] = (True, cpath, "native")
                    else:
                        log(f"  non-termination counterexample of {r['harness']} did not reproduce with truncated documents -> inconclusive")
                        exit_code = max(exit_code, 2)
                        replayed[ckey] = (False, cpath, "")
                    continue
                test_src = None if spec.get("fallback_playback") else concrete_playback(work, spec)
                if spec.get("fallback_playback"):
                    # Kani's trace run can exceed memory where the verification run (sliced) takes a second (measured:
                    # 84M variables, > 24 GB for the 10 MiB BufReader of DltMessageReader::new); for harnesses whose
                    # only symbolic inputs range over a tiny domain the registry lists the complete set of input
                    # vectors and each is replayed natively instead of asking Kani for a trace
                    fn = spec["name"].split("::")[-1]
                    test_src = "\n".join(
                        f"#[test]\nfn kani_concrete_playback_fallback_{fn}_{i}() {{\n    let concrete_vals: Vec<Vec<u8>> = vec![{', '.join('vec![' + ', '.join(str(b) for b in v) + ']' for v in vals)}];\n"
                        f"    kani::concrete_playback_run(concrete_vals, {fn});\n}}\n" for i, vals in enumerate(spec["fallback_playback"]))
                case = {"property": prop, "harness": r["harness"], "failed_checks": unknown, "tier": tier,
                        "playback_test": test_src, "mem_checks": spec.get("mem_checks", False), "timeout": spec.get("timeout", 600)}
                os.makedirs(CASES, exist_ok=True)
                cpath = os.path.join(CASES, f"{prop}-{re.sub(r'[^A-Za-z0-9_]', '_', r['harness'])}.json")
                if test_src is None:
                    case["native"] = {"error": "Kani produced no concrete playback test"}
                    json.dump(case, open(cpath, "w"), indent=1)
                    log(f"  no concrete counterexample could be extracted for {r['harness']}; see {cpath}")
                    exit_code = max(exit_code, 2)
                    continue
                nat = inject_and_run_playback(work, spec, test_src)
                case["native"] = nat
                json.dump(case, open(cpath, "w"), indent=1)
                if nat.get("dev") == "fails" or nat.get("release") == "fails":
                    profs = ",".join(p for p in ("dev", "release") if nat.get(p) == "fails")
                    print(f"VIOLATION property={prop} replay={cpath}  harness={r['harness']} reproduced_in={profs} check={unknown[0]['description'][:120]!r}")
                    violations += 1
                    exit_code = max(exit_code, 1)
                    replayed[ckey] = (True, cpath, profs)
                else:
                    replayed[ckey] = (False, cpath, "")
                    log(f"  counterexample of {r['harness']} did NOT reproduce natively ({nat}); harness/stub suspect -> inconclusive")
                    exit_code = max(exit_code, 2)
        # open known findings whose witness no longer fails are reported (not an error)
    except Exception as e:
        log(f"[{prop}] infrastructure error: {e}")
        exit_code = max(exit_code, 2)
        results.append({"harness": "<driver>", "status": "ERROR", "detail": str(e)[:500], "failed": [], "covers": []})
    finally:
        try:
            write_evidence(prop, tier, seed, pdef, results, extra, time.time() - t0, violations)
        finally:
            work.close()
    if violations > 0:
        # a natively reproduced violation is a verdict even if other harnesses were inconclusive
        exit_code = 1
    npass = sum(1 for r in results if r["status"] in ("PASS", "KNOWN"))
    log(f"[{prop}] tier={tier}: {npass}/{len(results)} harnesses ok, exit {exit_code}, {time.time() - t0:.0f}s")
    return exit_code


def run_replay(prop, path):
    case = json.load(open(path))
    if case.get("engine") == "fibex":
        work = Work()
        try:
            work.snapshot()
            nat = fibex_replay(work, case)
        finally:
            work.close()
        log(f"native replay: {nat}")
        if nat.get("reproduced"):
            print(f"VIOLATION property={case['property']} replay={path}")
            return 1
        return 0
    if case.get("engine") == "smt":
        import smt.engine as smt_engine
        work = Work()
        try:
            work.snapshot()
            ok = smt_engine.replay(case, work, log)
        finally:
            work.close()
        if ok:
            print(f"VIOLATION property={case['property']} replay={path}")
            return 1
        return 0
    work = Work()
    try:
        work.snapshot()
        spec = {"name": case["harness"], "mem_checks": case.get("mem_checks", False), "timeout": case.get("timeout", 600)}
        nat = inject_and_run_playback(work, spec, case["playback_test"])
    finally:
        work.close()
    log(f"native replay: {nat}")
    if nat.get("dev") == "fails" or nat.get("release") == "fails":
        print(f"VIOLATION property={case['property']} replay={path}")
        return 1
    if nat.get("dev") == "passes" and nat.get("release") == "passes":
        return 0
    return 2


def setup():
    """Offline setup: check the tools and warm the dependency build cache."""
    for tool in ("cargo", "cbmc", "goto-cc", "goto-instrument", "rsync", "cvc5", "z3"):
        if shutil.which(tool) is None:
            log(f"missing tool: {tool}")
            return 2
    work = Work()
    try:
        work.snapshot()
        kani_build(work, ["c14::c14_msin_all_bytes"])
    finally:
        work.close()
    log("setup ok")
    return 0


def main():
    ap = argparse.ArgumentParser()
    ap.add_argument("prop", nargs="?")
    ap.add_argument("--tier", default=os.environ.get("VERIF_TIER", "quick"), choices=["quick", "thorough"])
    ap.add_argument("--jobs", type=int, default=int(os.environ.get("VERIF_JOBS", "12")))
    ap.add_argument("--only")
    ap.add_argument("--keep", action="store_true")
    ap.add_argument("--replay")
    ap.add_argument("--setup", action="store_true")
    a = ap.parse_args()
    if a.setup:
        sys.exit(setup())
    if not a.prop or a.prop not in registry.PROPS:
        log("unknown property; known: " + " ".join(sorted(registry.PROPS)))
        sys.exit(2)
    seed = int(os.environ.get("VERIF_SEED", "0") or 0)
    if a.replay:
        sys.exit(run_replay(a.prop, a.replay))
    if a.only:
        # partial (debugging) runs must not overwrite the evidence of complete runs
        global EVID
        EVID = os.path.join(TMPBASE, "evidence-partial")
    sys.exit(run_property(a.prop, a.tier, a.jobs, a.only, a.keep, seed))


if __name__ == "__main__":
    main()
